#!/bin/bash
# Builds the harness once (offline) to warm the Go build cache.
set -e
cd "$(dirname "$0")"
export GOFLAGS=-mod=mod GOPROXY=off GOSUMDB=off GOTOOLCHAIN=local CGO_ENABLED=1
mkdir -p bin .work evidence replay
go build -tags verif -o bin/vcheck.main ./cmd/vcheck
go build -tags verif -race -o bin/vcheck-race.main ./cmd/vcheck
echo "setup ok"
