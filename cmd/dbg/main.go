package main

import (
	"fmt"
	"os"
	"strconv"
	"time"

	"verif/internal/mon"
	"verif/internal/props"
)

// dbg <ID> <family> <from> <to>: replays single cases serially and prints their wall time (development aid).
func main() {
	id, fam := os.Args[1], os.Args[2]
	lo, _ := strconv.ParseInt(os.Args[3], 10, 64)
	hi, _ := strconv.ParseInt(os.Args[4], 10, 64)
	for i := lo; i < hi; i++ {
		r := mon.NewRun(id, "quick", 1)
		r.SetReplay(&mon.Replay{Property: id, Tier: "quick", Seed: 1, Family: fam, Index: i})
		st := time.Now()
		props.Registry[id](r)
		if d := time.Since(st); d > 50*time.Millisecond {
			fmt.Println("case", i, d)
		}
	}
}
