// vcheck runs the runtime monitor of one property.
//
//	vcheck <ID> quick|thorough
//	vcheck <ID> --replay <file>
package main

import (
	"fmt"
	"os"
	"strconv"

	"verif/internal/mon"
	"verif/internal/props"
)

func main() {
	if len(os.Args) < 3 {
		fmt.Println("usage: vcheck <ID> quick|thorough | vcheck <ID> --replay <file>")
		os.Exit(2)
	}
	id := os.Args[1]
	fn, ok := props.Registry[id]
	if !ok {
		fmt.Println("unknown property", id)
		os.Exit(2)
	}
	seed := int64(1)
	if s := os.Getenv("VERIF_SEED"); s != "" {
		if v, err := strconv.ParseInt(s, 10, 64); err == nil {
			seed = v
		}
	}
	tier := os.Args[2]
	var rp *mon.Replay
	if tier == "--replay" {
		if len(os.Args) < 4 {
			fmt.Println("missing replay file")
			os.Exit(2)
		}
		var err error
		rp, err = mon.LoadReplay(os.Args[3])
		if err != nil {
			fmt.Println("cannot read replay file:", err)
			os.Exit(2)
		}
		tier, seed = rp.Tier, rp.Seed
	}
	if tier != "quick" && tier != "thorough" {
		fmt.Println("tier must be quick or thorough")
		os.Exit(2)
	}
	r := mon.NewRun(id, tier, seed)
	if rp != nil {
		r.SetReplay(rp)
	}
	if len(os.Args) > 3 && os.Args[3] == "--child" {
		if err := r.ParseChildArgs(os.Args[3:]); err != nil {
			fmt.Println(err)
			os.Exit(2)
		}
		fn(r)
		os.Exit(r.FinishChild())
	}
	fn(r)
	os.Exit(r.Finish())
}
