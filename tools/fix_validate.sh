#!/bin/bash
# tools/fix_validate.sh: for every "fix:" commit of /repo, re-creates the tree with only that fix reverted (scratch worktree),
# runs the mapped check(s) with VERIF_REPO and expects a VIOLATION (fail-before); the unchanged tree passing is the pass-after.
# Output: one line per (commit, property).
cd "$(dirname "$0")/.."
MAP="${FIXMAP:-2b88969:C12 d5d5e0e:C01 e169fef:C07 7438a1d:C09 bf02b9c:C13,C14 7e0ca68:C12 1a14709:C04 c742deb:C12 d81f8ba:C08 b491e21:C12 0118805:C11 f456550:C01,C20 3d05b64:C01,C02 b6d825e:C07 f44dc14:C09,C20 f886f9e:C09 20ecb3c:C03 408c65c:C12 ee50250:C03 f42229c:C19,C04 7fd051b:C14,C04 c673c8a:C14 b8dc803:C14 aaf7bc6:C14 da28530:C06,C17 f1a0827:C05 89152ca:C19 3726581:C19 223ff8a:C16 f45da98:C14 ae47d5f:C11 ae3858d:C08 6d3d359:C08 c9171ed:C08 f2f01bc:C11 e95ea25:C06,C13 251523b:C16 a68bb03:C12 88e2f18:C07}"
for m in $MAP; do
  c=${m%%:*}; props=${m##*:}
  WT=/tmp/fixval-$c
  git -C /repo worktree remove --force $WT >/dev/null 2>&1
  git -C /repo worktree add -q --detach $WT HEAD
  how=revert
  if ! git -C $WT revert --no-commit $c >/dev/null 2>&1; then
    git -C $WT revert --abort >/dev/null 2>&1; git -C $WT reset -q --hard HEAD
    git -C $WT checkout -q --detach $c^ ; how="parent-commit"
  fi
  for p in ${props//,/ }; do
    out=$(VERIF_REPO=$WT VERIF_EVIDENCE_DIR=$PWD/.work/fixval-ev timeout 1500 ./check $p quick 2>&1); rc=$?
    nv=$(echo "$out" | grep -c '^VIOLATION')
    first=$(echo "$out" | grep -m1 'kind=' | cut -c1-220)
    echo "$c $(git -C /repo log -1 --format=%s $c | cut -c1-70) | $how | $p rc=$rc violations=$nv |$first"
  done
  git -C /repo worktree remove --force $WT
done
rm -f bin/vcheck*._tmp_fixval*
