#!/usr/bin/env python3
"""Builds validation/seeded_matrix.md from seed matrix result files (lines "<name> <Cxx> rc=<rc> violations=<n> ...")."""
import sys, re, collections, json, os
res = collections.defaultdict(dict)
for f in sys.argv[1:]:
    for l in open(f):
        m = re.match(r'(\S+) (C\d+) rc=(\d+) violations=(\d+)', l)
        if m: res[m.group(1)][m.group(2)] = int(m.group(3))
props = ['C%02d' % i for i in range(1, 21)]
out = ["# Seeded changes x quick checks", "",
       "Each row is one seeded change (seeded/<id>/), applied to a scratch worktree of /repo; each column the quick command of one check run against it.",
       "`X` = VIOLATION reported (exit 1), `.` = held (exit 0), `?` = inconclusive (exit 2), blank = not run. The target column is the property the change was written for.", "",
       "| change | target | " + " | ".join(p[1:] for p in props) + " | caught by |", "|---|---|" + "---|" * (len(props) + 1)]
missed = []
for name in sorted(res):
    tgt = re.search(r'C\d+', name).group(0)
    row = []
    caught = []
    for p in props:
        rc = res[name].get(p)
        row.append({None: ' ', 0: '.', 1: 'X', 2: '?'}.get(rc, '?'))
        if rc == 1: caught.append(p)
    out.append("| %s | %s | %s | %s |" % (name, tgt, " | ".join(row), " ".join(caught) if caught else "**none (quick)**"))
    if not caught: missed.append(name)
out += ["", "Changes caught by no quick check: " + (", ".join(missed) if missed else "none") + "."]
open('validation/seeded_matrix.md', 'w').write("\n".join(out) + "\n")
print("rows", len(res), "missed", missed)
