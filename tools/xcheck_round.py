#!/usr/bin/env python3
"""Development-time cross-check of the reference rounding model (internal/dec RoundOnce + ModelArith) against CPython's
decimal (libmpdec) on the region where the semantics coincide.
Usage: VERIF_XCHECK_DUMP=/tmp/x.tsv ./check C01 quick; python3 tools/xcheck_round.py /tmp/x.tsv
Known, documented differences that are excluded: overflow under directed modes (libmpdec returns the largest finite
number, apd/the property always Infinity); Neg(0) sign; contexts libmpdec rejects (Emax < prec-? none)."""
import sys, decimal
from decimal import Decimal, Context
modes = {"down": decimal.ROUND_DOWN, "half_up": decimal.ROUND_HALF_UP, "half_even": decimal.ROUND_HALF_EVEN, "ceiling": decimal.ROUND_CEILING,
         "floor": decimal.ROUND_FLOOR, "half_down": decimal.ROUND_HALF_DOWN, "up": decimal.ROUND_UP, "05up": decimal.ROUND_05UP, "": decimal.ROUND_HALF_UP, "bogus_mode": decimal.ROUND_HALF_UP}
def conv(s):
    neg = s.startswith('-'); t = s.lstrip('-')
    if t == 'Inf': return Decimal('-Infinity' if neg else 'Infinity')
    c, e = t.split('E')
    return Decimal(('-' if neg else '') + c + 'E' + e)
ops = {'add': 'add', 'sub': 'subtract', 'mul': 'multiply', 'quo': 'divide', 'abs': 'abs', 'round': 'plus', 'quoint': 'divide_int', 'rem': 'remainder',
       'quantize': 'quantize', 'rtie': 'to_integral_exact', 'rtiv': 'to_integral_value', 'reduce': 'normalize', 'sqrt': 'sqrt'}
n = bad = skipped = 0
for line in open(sys.argv[1]):
    op, p, emin, emax, mode, x, y, want, flags, cls = line.rstrip('\n').split('\t')
    p, emin, emax = int(p), int(emin), int(emax)
    if op not in ops or p == 0: skipped += 1; continue
    try:
        ctx = Context(prec=p, rounding=modes[mode], Emin=emin, Emax=emax, traps=[], clamp=0)
    except Exception:
        skipped += 1; continue
    args = [conv(x)] + ([conv(y)] if y else [])
    if op == 'quantize':
        args[1] = Decimal(1).scaleb(int(args[1]))
    if op == 'sqrt' and mode != 'half_even':
        ctx.rounding = decimal.ROUND_HALF_EVEN   # the property fixes half-even for Sqrt
    try:
        r = getattr(ctx, ops[op])(*args)
    except Exception as ex:
        print('EXC', op, x, y, ex); continue
    if want == 'NaN':
        n += 1
        fl = set(k.__name__ for k, v in ctx.flags.items() if v)
        if not r.is_nan() or not (fl & {'InvalidOperation', 'DivisionImpossible'}):
            # libmpdec quantize/to_integral beyond Emax etc. may differ: report
            bad += 1
            if bad <= 20: print('DIFF-NaN', op, 'p=%d Emin=%d Emax=%d %s' % (p, emin, emax, mode), x, y, 'model: NaN', flags, 'libmpdec:', r, sorted(fl))
        continue
    w = conv(want)
    if r.is_nan():
        bad += 1
        if bad <= 20: print('DIFF', op, 'p=%d Emin=%d Emax=%d %s' % (p, emin, emax, mode), x, y, 'model:', want, 'libmpdec: NaN')
        continue
    fl = set(k.__name__ for k, v in ctx.flags.items() if v)
    if 'Overflow' in fl and not r.is_infinite():
        skipped += 1; continue   # libmpdec returns the largest finite number under directed modes
    if op == 'round' and r == 0 and w == 0:
        # plus(-0) gives +0 in the GDA; apd's Round keeps the sign
        ok_val = True
    else:
        ok_val = (r == w) and (r.is_signed() == w.is_signed() or r != 0)
    wf = set(flags.split('|')) - {'0'}
    pf = fl & {'Inexact', 'Subnormal', 'Underflow', 'Overflow', 'Rounded'}
    # the model's Must set is a subset of what must be raised; compare the four core flags
    core = {'Inexact', 'Subnormal', 'Underflow', 'Overflow'}
    if op in ('quantize', 'rtie', 'rtiv', 'quoint', 'rem'):
        core = {'Inexact'} if op in ('quantize', 'rtie') else (set() if op in ('rtiv', 'quoint') else core)
    ok_fl = (wf & core) == (pf & core)
    n += 1
    if not ok_val or not ok_fl:
        bad += 1
        if bad <= 20:
            print('DIFF', op, 'p=%d Emin=%d Emax=%d %s' % (p, emin, emax, mode), x, y, 'model:', want, sorted(wf & core), 'libmpdec:', r, sorted(pf & core), cls)
print('compared', n, 'skipped', skipped, 'differences', bad)
