RM = "online reference-model monitor"
chk("C01", RM + ": every apd result compared with the exact result rounded once by an independent big-integer model",
    "Exploration: 10^5-10^6 (quick) / 10^7-10^8 (thorough, plus an exhaustive small grid) generated calls of Add/Sub/Mul/Quo/Abs/Neg/Round/context-aware parsing/Precision-0 operations, each decided by an independent exact-arithmetic oracle; boundary-directed generators (ties, carries, subnormal band, Etiny, Emax, cancellation) with coverage quotas per class. Decides only the executions produced.",
    "Trusted: Go toolchain, math/big, the 8-line rounding table and roundOnce in internal/dec (cross-checked against libmpdec at development time).", "DESIGN.md 4/C01")
chk("C02", RM + ": returned Condition compared with flags derived from the exact result",
    "Exploration: flags of Add/Sub/Mul/Quo/QuoInteger/Rem/Round/Quantize/RoundToIntegralExact/Reduce/Sqrt compared with the model's flags (equalities on Inexact/Subnormal/Underflow/Overflow/division conditions, implications for Rounded), same workloads as C01/C09/C10/C11.",
    "Trusted: as C01. Subnormal unconstrained for Quantize/RoundToIntegralExact. Sqrt hard-case class attributed to a known finding.", "DESIGN.md 4/C02")
chk("C09", RM + ": exact integer division with remainder + independent rounding table",
    "Exploration: Quantize at every relative position of the target exponent, RoundToIntegralExact/Value, Ceil, Floor, all modes, MinExponent from 0 down; value, exponent and flags decided by exact integer arithmetic.",
    "Trusted: math/big, internal/dec rounding table.", "DESIGN.md 4/C09")
chk("C10", RM + " + algebraic identity monitor (x = q*y + r) tying QuoInteger and Rem together",
    "Exploration: QuoInteger and Rem run on the same generated operands, each compared with big.Int QuoRem of the aligned coefficients and together through the division identity.",
    "Trusted: math/big.", "DESIGN.md 4/C10")
chk("C11", RM + ": integer square/cube roots with exact remainder comparisons",
    "Exploration: Sqrt compared with the exact root rounded half-even once (ties decided exactly), Cbrt checked to lie within one unit by exact cubes and to be exact on perfect cubes; random, perfect-power and constructed hard-case operands. Two known findings (Sqrt hard cases, Cbrt non-convergence at tiny precision) are attributed by class predicates.",
    "Trusted: math/big (Sqrt verified by s^2<=n<(s+1)^2; cube root verified likewise).", "DESIGN.md 4/C11")
chk("C19", RM + ": decimal text length for NumDigits, reference stripping for Reduce, destination pre-state differential for the count",
    "Exploration: NumDigits at every bit length 1..130 boundary, at 10^j-1/10^j/10^j+1 for every j up to 6000 (quick) / 15000 (thorough), random values to 40000 bits, both signs and three construction paths; Decimal.Reduce and Context.Reduce on 0..3000 trailing zeros with two destination pre-states.",
    "Trusted: math/big text conversion.", "DESIGN.md 4/C19")
chk("C20", "metamorphic (relational) monitor: the same call evaluated under all 8 rounding modes and under operand transformations, results compared with each other",
    "Exploration without external oracle: bracketing (floor <= all <= ceiling, |down| <= |all| <= |up|), half-mode membership, exactness agreement, floor/ceiling adjacency on the context grid, commutativity, Sub=Add(-y), mirroring, monotonicity of Round along sorted chains, power-of-ten scaling; thorough adds the exhaustive small grid.",
    "Trusted: only big.Int comparison/next-representable helpers; apd is compared with apd.", "DESIGN.md 4/C20")
chk("C08", "table-driven reference-model monitor over the exhaustively enumerated special-value grid (all aliasing patterns)",
    "Exploration, exhaustive over a finite grid: 36 operand classes (NaN/sNaN/Inf/zeros of both signs and several exponents, representative finites) for both operands x 22 Context operations x 8 modes x 3 contexts x 2 trap sets x aliasing patterns; every defined cell compared with a table transcribed from the GDA specification.",
    "Trusted: the table in internal/props/c08.go (agrees with CPython decimal/libmpdec on all 41008 comparable cells except three documented apd conventions).", "DESIGN.md 4/C08")
chk("C05", "differential (relational) monitor across aliasing patterns: the same call on all-distinct deep copies is the oracle",
    "Exploration: every Context operation with random trap sets under d==x, d==y, x==y, d==x==y; Decimal.Modf/Neg/Abs/Reduce/Set with the receiver as argument (and nil outputs); BigInt methods under z==x, z==y, r==x, x==y, z==x==y; destination fields, Condition and error presence compared with the un-aliased call.",
    "Trusted: nothing beyond field comparison; apd is compared with apd.", "DESIGN.md 4/C05")
chk("C06", "purity monitor: destination pre-state differential, bit-for-bit operand/Context snapshots through the VerifRepr hook, shared-state fingerprint hook, canary calls re-evaluated over the process history",
    "Exploration: each call is executed into a fresh destination and into destinations that previously held NaN/sNaN/Inf/huge/inline values; operands are snapshotted including the BigInt inline/heap representation; the fingerprint of all package-level constants and tables is compared throughout the run; 64 canary calls are re-evaluated after every workload family.",
    "Trusted: the read-only hooks VerifRepr/VerifSharedState (verif build tag).", "DESIGN.md 4/C06")
chk("C03", "differential monitor across trap sets (the untrapped run of the same call is the oracle) + ErrDecimal sequence model + logical loop-iteration budget through the tick hook, in serial child processes",
    "Exploration: every Context operation and context-aware parsing run with Traps=0 and then under 18 trap sets (thorough: all 4096 for 20000 sampled cases, exhaustive over the trap-set dimension for those); error <=> trapped/system condition for the single-rounding operations, implications for the composite ones, result delivered alongside trap errors, no non-termination under any trap set (decided by loop ticks, not wall time); ErrDecimal mirrored by direct calls over random method sequences.",
    "Trusted: the tick hook call sites cover every data-dependent loop of the package (listed in MANIFEST hooks commit); a loop added without a tick is covered only by the wall-clock watchdog (inconclusive).", "DESIGN.md 4/C03")
chk("C04", "crash/hang monitor in serial child processes (recover, loop-tick budget, journal + confirmation re-run for fatal errors) + structural invariant on parsed values",
    "Exploration: 2.4e5 (quick) / 2.4e7 (thorough) calls spread over all exported entry points with hostile contexts, special values, limit exponents, precisions up to 10000 digits, grammar/mutated/random strings, random fmt verbs, BigInt method sequences; any panic, loop-budget overrun or process death is a violation; parsed values are checked for non-negative coefficient, valid form and in-range exponents.",
    "Trusted: as C03 for the tick hook. 'Fails to return' is decided as exceeding 2e7 loop ticks per call.", "DESIGN.md 4/C04")
chk("C16", "lock-step model-based monitor over method sequences with math/big.Int as the executable model + representation invariants through the VerifRepr hook",
    "Exploration: pools of 6 BigInt slots mirrored by big.Int, sequences of 30-200 calls over 47 method groups with all aliasing patterns, values dense at the 64/128-bit boundaries; all slots compared after every call; no negative zero, inline words equal |value|, no shared heap big.Int; MathBigInt results stable across later mutation, stack growth and GC.",
    "Trusted: math/big.Int is the specification (its own stale-neg-flag zero from GCD is normalised in the mirror).", "DESIGN.md 4/C16")
chk("C13", "round-trip monitor: every encoding is parsed back and compared field-wise; Decompose/Compose into clean and dirty destinations; float64 round trip with an independent big.Rat nearest-float oracle for exactness and shortest-ness",
    "Exploration: all forms/signs, coefficients of 1..2000 digits incl. the 32/53/63/64/128-bit and 10^19 boundaries, exponents over the full +/-100000 range with dense sampling at the formatting switch-over points; 16 encodings per value; float64 over random bit patterns, subnormals, powers of two and decimal neighbours.",
    "Trusted: big.Rat.Float64 exactly rounded; special values in canonical shape.", "DESIGN.md 4/C13")
chk("C14", "language-membership monitor (independent DFA recogniser of the GDA numeric-string grammar vs all five parsers) + independent to-scientific-string writer + fmt padding model calibrated at run time against fmt's float64 output",
    "Exploration: grammar sentences, single-byte mutations, fragment concatenations and random bytes classified must-accept / must-reject / unconstrained; accepted strings must yield the recogniser's value; String() compared with the independent writer over the full exponent range; Format over verb x flag-subset x width combinations.",
    "Trusted: internal/gda (recogniser and writer transcribed from the specification).", "DESIGN.md 4/C14")
chk("C15", "order-axiom monitor on pairs and pools with an exact big-integer comparison as reference",
    "Exploration: pairs engineered for each path of Cmp (equal exponents, adjusted magnitudes, equal digit-count+exponent sums, cohorts, zeros, infinities, large exponent gaps, NaNs); Cmp/Context.Cmp against the exact order, CmpTotal against the documented ranking plus antisymmetry, reflexivity, zero-iff-identical and transitivity on pools of 7 values.",
    "Trusted: math/big.", "DESIGN.md 4/C15")
chk("C17", "online reference-model monitor: big.Int for Int64/constructors/Modf, big.Rat.Float64 (exact nearest) for Float64",
    "Exploration: Int64 around the int64 boundaries times powers of ten with trailing-zero and fractional variants; constructors into dirty destinations; Float64 at midpoints of adjacent floats +/- a far digit, subnormal range and overflow edge; Modf with dirty and nil outputs over all branches.",
    "Trusted: math/big.", "DESIGN.md 4/C17")
