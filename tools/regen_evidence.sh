#!/bin/bash
# tools/regen_evidence.sh: runs every registered quick command in /verif against /repo (seed 1) so that the committed
# evidence files come from the current code; prints one line per check and validates the files against the schemas.
cd "$(dirname "$0")/.."
fail=0
for p in C01 C02 C03 C04 C05 C06 C07 C08 C09 C10 C11 C12 C13 C14 C15 C16 C17 C18 C19 C20; do
  out=$(VERIF_SEED=1 ./check $p quick 2>&1); rc=$?
  echo "$p rc=$rc $(echo "$out" | tail -1 | cut -c1-140)"
  [ $rc -ne 0 ] && { fail=1; echo "$out" | grep -m3 "kind=\|INCONCLUSIVE" | cut -c1-400; }
done
python3-vt tools/validate.py | grep -v " valid$"
exit $fail
