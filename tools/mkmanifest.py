#!/usr/bin/env python3
"""Regenerates /verif/MANIFEST.json from the table below (run from /verif)."""
import json, subprocess

HOOK_COMMITS = ["ff9b5c6", "3be207b"]

# id -> (technique, level text, level_note, design_ref)
CHECKS = {}
NOT_APPLICABLE = {}

def chk(id, technique, text, note, ref):
    CHECKS[id] = dict(technique=technique, text=text, note=note, ref=ref)

exec(open('tools/manifest_table.py').read())

# strata added while testing the monitors against seeded changes (DESIGN.md 8.5)
EXTRA = {
 "C01": " Added strata: power-of-ten minuends with far smaller subtrahends, exponents more than 100000 apart (a delivered result is judged, an exponent-limit error accepted), precisions 127..513, coincidence lengths (10^k within 5e-4 of a power of two), kept-boundary roundings (kept digits exactly 2^64-1 ...), giant roundings (100002..200001 digits), precisions from 2^31, plain-notation strings with long zero runs.",
 "C02": " Added strata as in C01 (coincidence lengths, far-apart exponents, precisions up to 513); Cbrt on 200000 perfect cubes per quick run (Inexact exactly when the returned value is not the exact root).",
 "C03": " Added: ErrDecimal sequences with trap sets that change between calls, Exp arguments of magnitude 1e4..1e45, perfect squares/cubes with subnormal roots, composite functions at 300..700 digits.",
 "C04": " Added: strings that are not text (runs of UTF-8 continuation bytes, lone lead bytes, 0xFF, NUL behind a numeric prefix) through every parser, with the error texts rendered.",
 "C05": " Added: Modf operands of 130..530 digits, BigInt.Rand and heap-history BigInt operands, Pow whose exact result is a tie.",
 "C06": " Added: same-object histories, isolation of NewWithBigInt/Set copies, destinations that were used before.",
 "C07": " Added: zeros and other operands from wider contexts (the MaxExponent clause applies to zeros), coincidence lengths, precisions from 2^31, Log10 of powers of ten in tiny exponent ranges, long-coefficient sweep to 12000 (quick) / 101000 (thorough) digits.",
 "C08": " Added to the grid: infinities as an overflow leaves them, NaNs with leftover exponent and payload, one written with 151 digits, odd integers written with 18..20 fraction zeros.",
 "C09": " Added: trap echo of every judged call, coincidence precisions (497, 643, ...), contexts whose MaxExponent is below their Precision, kept digits at machine-word and power-of-ten boundaries (2^64-1 followed by a tail that rounds away ...).",
 "C10": " Added: precisions from 2^31, exponent gaps beyond the power-of-ten table.",
 "C11": " Added: Sqrt at precisions of 16000..72000 digits; 400000 perfect cubes per quick run, half with roots next to a power of ten.",
 "C12": " Added: huge integer exponents for Pow (with and without a fractional part) on bases next to 1, Ln arguments in (1.1, e^0.1), arguments hugging the overflow threshold of Exp, a stratum at 300..1200 digits.",
 "C13": " Added: coefficients of 100002..200001 digits, encoded bytes held while other values are encoded, exact-midpoint floats, coefficients Q*B+R with B a decimal limb (10^9..10^57) and Q at a machine-word boundary.",
 "C14": " Added: strings of 64 KB..400 KB, exponent numerals that wrap in 32/64-bit arithmetic, written exponents beyond the limit compensated by the position of the point, giant zero fractions, a precision in the format directive, a list of what other notations write where a number is expected (null, nil, N/A, 1,000, 0x1p3, non-ASCII digits and signs ...).",
 "C15": " Added: digit-count sweep (every length to 3000 quick / 120000 thorough), every coincidence gap and digit count up to 200200, single-bit differences inside the low digits, twin pools of look-alike coefficients compared repeatedly, infinities as an overflow leaves them, and for every gap 1..128 low digits equal to +/-m*2^j for every bit position j.",
 "C16": " Added: structured single calls (k^2+/-1, q*y+{0,1,y-1}, base^n+/-1), classical pseudoprimes for ProbablyPrime, nil receivers and damaged encodings, dirty FillBytes buffers.",
 "C17": " Added: exact-midpoint float cases, constructor argument isolation.",
 "C18": " Added: cold-start phase (first use of the package by 16 goroutines at once), shared contexts with six kinds of trap sets, Modf with nil parts, shared coefficients as BigInt arguments, pressure phase at working precisions of 500..9000 digits with a division storm, coefficients of 19800..40000 digits; panics inside concurrent calls are reported.",
 "C19": " Added: dense sweep of 10^j-1 and 10^j for every j up to 101000, twelve giant integers, zero runs of 131071..524288 (thorough), NumDigits at every length up to 2.5 million (quick) / 8 million (thorough) digits where 10^j lies within 2e-6 of a power of two.",
 "C20": " Added: monotone chains with mixed lengths, the exported Rounder.Round with a rounder other than the context's, kept-boundary roundings.",
}
for _id, _x in EXTRA.items():
    if _id in CHECKS:
        CHECKS[_id]['text'] += _x

props = [json.loads(l)['id'] for l in open('properties.jsonl')]
checks = []
for p in props:
    if p in CHECKS:
        c = CHECKS[p]
        checks.append({
            "property_id": p,
            "quick_cmd": "./check %s quick" % p,
            "thorough_cmd": "./check %s thorough" % p,
            "evidence_file": "evidence/%s.json" % p,
            "replay_cmd_template": "./check %s --replay {path}" % p,
            "engine": "vcheck",
            "level_claimed": {"category": "exploration", "text": c['text'], "design_ref": c['ref']},
            "level_note": c['note'],
            "technique": c['technique'],
        })
na = [{"property_id": p, "reason": NOT_APPLICABLE.get(p, "check under construction in this session; see DESIGN.md section 4")} for p in props if p not in CHECKS]
m = {
    "version": 1,
    "setup_cmd": "./setup.sh",
    "hooks": {
        "guard": "verif",
        "enable": "go build -tags verif; /verif/go.mod replaces github.com/cockroachdb/apd/v3 by /repo, so every check compiles /repo's working tree with the hooks on",
        "baseline_off_cmd": "cd /repo && GOFLAGS=-mod=mod GOPROXY=off GOSUMDB=off go test -vet=off -count=1 ./...",
        "source_commits": HOOK_COMMITS,
        "add_only": True,
    },
    "engines": [{"name": "vcheck", "path": "cmd/vcheck", "serves_properties": sorted(CHECKS), "kind_free_text": "Go harness: runs the real apd code (built from /repo with -tags verif) on seeded hostile workloads under online reference-model monitors, relational monitors, invariant hooks and the Go race detector"}],
    "checks": checks,
    "not_applicable": na,
    "notes": "All checks are runtime monitors over executions of the real code; exit 0 = held on everything explored (KNOWN-FINDING lines allowed, see known_findings.json), exit 1 = VIOLATION line printed, exit 2 = inconclusive (build failure or coverage quota not met). VERIF_SEED selects the workload; tiers are defined by case counts, never by time.",
}
json.dump(m, open('MANIFEST.json', 'w'), indent=1)
print("checks:", [c['property_id'] for c in checks], "not_applicable:", [n['property_id'] for n in na])
