#!/usr/bin/env python3
"""Regenerates /verif/MANIFEST.json from the table below (run from /verif)."""
import json, subprocess

HOOK_COMMITS = ["ff9b5c6", "3be207b"]

# id -> (technique, level text, level_note, design_ref)
CHECKS = {}
NOT_APPLICABLE = {}

def chk(id, technique, text, note, ref):
    CHECKS[id] = dict(technique=technique, text=text, note=note, ref=ref)

exec(open('tools/manifest_table.py').read())

props = [json.loads(l)['id'] for l in open('properties.jsonl')]
checks = []
for p in props:
    if p in CHECKS:
        c = CHECKS[p]
        checks.append({
            "property_id": p,
            "quick_cmd": "./check %s quick" % p,
            "thorough_cmd": "./check %s thorough" % p,
            "evidence_file": "evidence/%s.json" % p,
            "replay_cmd_template": "./check %s --replay {path}" % p,
            "engine": "vcheck",
            "level_claimed": {"category": "exploration", "text": c['text'], "design_ref": c['ref']},
            "level_note": c['note'],
            "technique": c['technique'],
        })
na = [{"property_id": p, "reason": NOT_APPLICABLE.get(p, "check under construction in this session; see DESIGN.md section 4")} for p in props if p not in CHECKS]
m = {
    "version": 1,
    "setup_cmd": "./setup.sh",
    "hooks": {
        "guard": "verif",
        "enable": "go build -tags verif; /verif/go.mod replaces github.com/cockroachdb/apd/v3 by /repo, so every check compiles /repo's working tree with the hooks on",
        "baseline_off_cmd": "cd /repo && GOFLAGS=-mod=mod GOPROXY=off GOSUMDB=off go test -vet=off -count=1 ./...",
        "source_commits": HOOK_COMMITS,
        "add_only": True,
    },
    "engines": [{"name": "vcheck", "path": "cmd/vcheck", "serves_properties": sorted(CHECKS), "kind_free_text": "Go harness: runs the real apd code (built from /repo with -tags verif) on seeded hostile workloads under online reference-model monitors, relational monitors, invariant hooks and the Go race detector"}],
    "checks": checks,
    "not_applicable": na,
    "notes": "All checks are runtime monitors over executions of the real code; exit 0 = held on everything explored (KNOWN-FINDING lines allowed, see known_findings.json), exit 1 = VIOLATION line printed, exit 2 = inconclusive (build failure or coverage quota not met). VERIF_SEED selects the workload; tiers are defined by case counts, never by time.",
}
json.dump(m, open('MANIFEST.json', 'w'), indent=1)
print("checks:", [c['property_id'] for c in checks], "not_applicable:", [n['property_id'] for n in na])
