#!/bin/bash
# tools/seed_run.sh <seeded name> <property> [tier]: run one check against a seeded change applied to a scratch
# worktree of /repo (development aid; the registered commands always check /repo itself).
set -u
N="$1"; P="$2"; TIER="${3:-quick}"
cd "$(dirname "$0")/.."
WT=/tmp/seedrun-$N-$P
git -C /repo worktree remove --force $WT >/dev/null 2>&1
git -C /repo worktree add -q --detach $WT HEAD || exit 2
git -C $WT apply "$PWD/seeded/$N/patch.diff" || { echo "$N $P: patch does not apply"; git -C /repo worktree remove --force $WT; exit 2; }
mkdir -p .work/seedruns
VERIF_REPO=$WT VERIF_EVIDENCE_DIR=$PWD/.work/seedruns/ev-$N ./check $P $TIER > .work/seedruns/$N-$P.log 2>&1
rc=$?
git -C /repo worktree remove --force $WT
rm -f bin/vcheck*._tmp_seedrun_${N//-/_}_${P}_
nv=$(grep -c '^VIOLATION' .work/seedruns/$N-$P.log)
first=$(grep -m1 'kind=' .work/seedruns/$N-$P.log | cut -c1-260)
echo "$N $P rc=$rc violations=$nv $first"
