#!/bin/bash
# tools/sweep.sh <tier> <seed>...: runs every registered check at the given seeds; prints one line per run and the
# full output of every run that is not "held".
cd "$(dirname "$0")/.."
TIER="$1"; shift
for s in "$@"; do
  for p in C01 C02 C03 C04 C05 C06 C07 C08 C09 C10 C11 C12 C13 C14 C15 C16 C17 C18 C19 C20; do
    out=$(VERIF_SEED=$s VERIF_EVIDENCE_DIR=$PWD/.work/sweep-ev ./check $p $TIER 2>&1); rc=$?
    echo "seed=$s $p rc=$rc $(echo "$out" | tail -1 | cut -c1-150)"
    if [ $rc -ne 0 ]; then echo "$out" | grep -v "^  kind" | head -5; echo "$out" | grep "kind=" | cut -c1-900 | head -6; fi
  done
done
