#!/usr/bin/env python3
"""Development-time cross-check of the C08 special-value table against CPython's decimal (libmpdec).
Usage: VERIF_C08_DUMP=/tmp/c08.json ./check C08 quick; python3 tools/xcheck_c08.py /tmp/c08.json
Prints the cells where the table and libmpdec disagree; each must be explained (apd-documented deviation) or fixed."""
import json, sys, decimal
from decimal import Decimal, Context
cells = json.load(open(sys.argv[1]))
modes = {"down": decimal.ROUND_DOWN, "half_up": decimal.ROUND_HALF_UP, "half_even": decimal.ROUND_HALF_EVEN, "ceiling": decimal.ROUND_CEILING,
         "floor": decimal.ROUND_FLOOR, "half_down": decimal.ROUND_HALF_DOWN, "up": decimal.ROUND_UP, "05up": decimal.ROUND_05UP}
def conv(s):
    neg = s.startswith('-'); t = s.lstrip('-')
    if t in ('Inf', 'NaN', 'sNaN'):
        return Decimal(('-' if neg else '') + t)
    c, e = t.split('E')
    return Decimal(('-' if neg else '') + c + 'E' + e)
def show(d):
    if d.is_nan(): return 'NaN'
    if d.is_infinite(): return ('-' if d.is_signed() else '') + 'Inf'
    return d
ops = {'add': 'add', 'sub': 'subtract', 'mul': 'multiply', 'quo': 'divide', 'quoint': 'divide_int', 'rem': 'remainder', 'abs': 'abs', 'neg': 'minus',
       'round': 'plus', 'rtiv': 'to_integral_value', 'rtie': 'to_integral_exact', 'reduce': 'normalize', 'cmp': 'compare', 'sqrt': 'sqrt', 'exp': 'exp',
       'ln': 'ln', 'log10': 'log10', 'pow': 'power'}
n = bad = 0
seen = set()
for c in cells:
    if c['op'] not in ops: continue
    ctx = Context(prec=5, rounding=modes[c['mode']], Emin=-99, Emax=99, traps=[])
    x = conv(c['x']); args = [x]
    if c['y'] not in ('', '<nil>E0'):
        try: args.append(conv(c['y']))
        except Exception: pass
    try:
        r = getattr(ctx, ops[c['op']])(*args)
    except Exception as e:
        print('EXC', c, e); continue
    n += 1
    fl = set(k.__name__ for k, v in ctx.flags.items() if v)
    want = c['want']
    if want == 'NaN':
        ok = r.is_nan() and not r.is_snan()
    else:
        w = conv(want)
        ok = (not r.is_nan()) and (r == w) and (r.is_signed() == w.is_signed() or (r != 0))
    wf = set(c['flags'].split('|')) - {'0'}
    pf = set()
    if 'InvalidOperation' in fl: pf.add('InvalidOperation')
    if 'DivisionByZero' in fl: pf.add('DivisionByZero')
    if 'DivisionUndefined' in fl: pf.add('DivisionUndefined')
    if 'DivisionImpossible' in fl: pf.add('DivisionImpossible')
    if not ok or wf != pf:
        key = (c['op'], c['x'], c['y'], want, str(show(r)))
        if key in seen: continue
        seen.add(key); bad += 1
        print('DIFF', c['op'], c['x'], c['y'], c['mode'], 'table:', want, sorted(wf), 'libmpdec:', show(r), sorted(pf))
print('cells compared', n, 'distinct differences', bad)
