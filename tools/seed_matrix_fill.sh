#!/bin/bash
# tools/seed_matrix_fill.sh <matrix file>...: re-runs the (change, property) cells that are missing or inconclusive (rc=2)
# in the given matrix files and appends the new results to .work/seed_matrix_fill.txt.
cd "$(dirname "$0")/.."
python3 - "$@" > .work/fill_cells.txt <<'PY'
import sys, re, os
res = {}
for f in sys.argv[1:]:
    for l in open(f):
        m = re.match(r'(\S+) (C\d+) rc=(\d+)', l)
        if m: res[(m.group(1), m.group(2))] = int(m.group(3))
names = sorted(n for n in os.listdir('seeded') if os.path.isdir('seeded/' + n))
for n in names:
    todo = [p for p in ['C%02d' % i for i in range(1, 21)] if res.get((n, p), 2) == 2]
    if todo: print(n, " ".join(todo))
PY
while read N PROPS; do
  WT=/tmp/seedfill-$N
  git -C /repo worktree remove --force $WT >/dev/null 2>&1
  git -C /repo worktree add -q --detach $WT HEAD || continue
  git -C $WT apply "$PWD/seeded/$N/patch.diff" || { echo "$N patch does not apply"; git -C /repo worktree remove --force $WT; continue; }
  for P in $PROPS; do
    out=$(VERIF_REPO=$WT VERIF_EVIDENCE_DIR=$PWD/.work/seedfill-ev timeout 2400 ./check $P quick 2>&1); rc=$?
    nv=$(echo "$out" | grep -c '^VIOLATION')
    first=$(echo "$out" | grep -m1 'kind=\|INCONCLUSIVE' | cut -c1-160)
    echo "$N $P rc=$rc violations=$nv $first" | tee -a .work/seed_matrix_fill.txt
  done
  git -C /repo worktree remove --force $WT
done < .work/fill_cells.txt
