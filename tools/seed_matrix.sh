#!/bin/bash
# tools/seed_matrix.sh [name...]: runs every quick check against every seeded change (scratch worktree per change,
# VERIF_REPO); appends "<name> <property> rc=<rc> violations=<n> <first violation>" lines to .work/seed_matrix.txt.
cd "$(dirname "$0")/.."
names="$@"; [ -z "$names" ] && names=$(for d in $(ls seeded | grep -v go.mod); do [ -f seeded/$d/RETIRED.md ] || echo $d; done)
one() {
  N=$1
  WT=/tmp/seedmx-$N
  git -C /repo worktree remove --force $WT >/dev/null 2>&1
  git -C /repo worktree add -q --detach $WT HEAD || return
  git -C $WT apply "$PWD/seeded/$N/patch.diff" || { echo "$N patch does not apply" >> .work/seed_matrix.txt; git -C /repo worktree remove --force $WT; return; }
  for P in C01 C02 C03 C04 C05 C06 C07 C08 C09 C10 C11 C12 C13 C14 C15 C16 C17 C18 C19 C20; do
    out=$(VERIF_REPO=$WT VERIF_EVIDENCE_DIR=$PWD/.work/seedmx-ev-$N timeout 1800 ./check $P quick 2>&1); rc=$?
    nv=$(echo "$out" | grep -c '^VIOLATION')
    first=$(echo "$out" | grep -m1 'kind=' | cut -c1-160)
    echo "$N $P rc=$rc violations=$nv $first" >> .work/seed_matrix.txt
  done
  git -C /repo worktree remove --force $WT
  rm -rf .work/seedmx-ev-$N bin/vcheck*._tmp_seedmx_${N//-/_}_
}
export -f one
echo $names | tr ' ' '\n' | xargs -P 4 -I{} bash -c 'one {}'
