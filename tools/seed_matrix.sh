#!/bin/bash
# tools/seed_matrix.sh [name...]: runs every quick check against every seeded change (scratch worktree per change,
# VERIF_REPO); appends "<name> <property> rc=<rc> violations=<n> <first violation>" lines to .work/seed_matrix.txt.
cd "$(dirname "$0")/.."
names="$@"; [ -z "$names" ] && names=$(for d in $(ls seeded | grep -v go.mod); do [ -f seeded/$d/RETIRED.md ] || echo $d; done)
one() {
  N=$1
  WT=/tmp/seedmx-$N
  git -C /repo worktree remove --force $WT >/dev/null 2>&1
  git -C /repo worktree add -q --detach $WT HEAD || return
  git -C $WT apply "$PWD/seeded/$N/patch.diff" || { echo "$N patch does not apply" >> .work/seed_matrix.txt; git -C /repo worktree remove --force $WT; return; }
  # lean mode (default): the fifteen checks that take a few seconds each run against every change; the five
  # that take 20-80 s (C04 C12 C16 C18 C19) run against the changes written for them and against the changes
  # known to concern them (ALSO below). MATRIX_MODE=full runs all twenty against every change.
  T=$(echo $N | grep -o 'C[0-9][0-9]')
  PROPS="C01 C02 C03 C05 C06 C07 C08 C09 C10 C11 C13 C14 C15 C17 C20"
  case " C04 C12 C16 C18 C19 " in *" $T "*) PROPS="$PROPS $T";; esac
  case $N in
    R2-C01-A|R2-C04-A|R2-C07-A|R4-C07-A) PROPS="$PROPS C19";;
  esac
  case $N in
    R2-C04-A|R2-C14-A|C19-A|R2-C19-A|R3-C19-B|R4-C19-A|C17-A|R3-C17-B|R4-C05-A|R2-C10-A|C03-A|R3-C03-A) PROPS="$PROPS C04";;
  esac
  case $N in
    R2-C09-A|R4-C06-A|R4-C07-A|R2-C11-A) PROPS="$PROPS C18";;
  esac
  case $N in
    R4-C05-A|R2-C10-A|R2-C02-A|R2-C08-A|R2-C13-A) PROPS="$PROPS C16";;
  esac
  case $N in
    C06-B|R3-C06-A|R2-C12-A|R3-C03-A) PROPS="$PROPS C12";;
  esac
  [ "${MATRIX_MODE:-lean}" = full ] && PROPS="C01 C02 C03 C04 C05 C06 C07 C08 C09 C10 C11 C12 C13 C14 C15 C16 C17 C18 C19 C20"
  for P in $(echo $PROPS | tr ' ' '\n' | sort -u); do
    out=$(VERIF_REPO=$WT VERIF_EVIDENCE_DIR=$PWD/.work/seedmx-ev-$N timeout 1800 ./check $P quick 2>&1); rc=$?
    nv=$(echo "$out" | grep -c '^VIOLATION')
    first=$(echo "$out" | grep -m1 'kind=' | cut -c1-160)
    echo "$N $P rc=$rc violations=$nv $first" >> .work/seed_matrix.txt
  done
  git -C /repo worktree remove --force $WT
  rm -rf .work/seedmx-ev-$N bin/vcheck*._tmp_seedmx_${N//-/_}_
}
export -f one
echo $names | tr ' ' '\n' | xargs -P 5 -I{} bash -c 'one {}'
