#!/bin/bash
# tools/sweep_part.sh <tier> <seed> <ID>...: like sweep.sh for a subset of the checks.
cd "$(dirname "$0")/.."
TIER="$1"; s="$2"; shift 2
for p in "$@"; do
  out=$(VERIF_SEED=$s VERIF_EVIDENCE_DIR=$PWD/.work/sweep-ev ./check $p $TIER 2>&1); rc=$?
  echo "seed=$s $p rc=$rc $(echo "$out" | tail -1 | cut -c1-150)"
  if [ $rc -ne 0 ]; then echo "$out" | grep -v "^  kind" | head -5; echo "$out" | grep "kind=" | cut -c1-900 | head -6; fi
done
