#!/bin/bash
# tools/seed_verify.sh <seeded dir>: confirms a seeded change in a scratch worktree of /repo:
# patch applies and builds, the repo suite passes with it, the demo fails with it and passes without it.
# Prints one line: <name> apply=.. build=.. suite=.. demo_with=FAIL|PASS demo_without=PASS|FAIL
set -u
export GOFLAGS=-mod=mod GOPROXY=off GOSUMDB=off GOTOOLCHAIN=local
D=$(cd "$1" && pwd); N=$(basename "$D")
WT=/tmp/seedwt-$N
git -C /repo worktree remove --force $WT >/dev/null 2>&1
git -C /repo worktree add -q --detach $WT HEAD || exit 2
cd $WT
RACE=""
grep -qi "race" "$D/notes.md" 2>/dev/null && grep -q "C18" <<<"$N" && RACE="-race"
cp "$D/zz_demo_test.go" . ; demo_without=FAIL
go test $RACE -vet=off -count=1 -run 'Demo|ZZ|zz' . >/tmp/seedwt-$N.without.log 2>&1 && demo_without=PASS
rm -f zz_demo_test.go
apply=ok; git apply "$D/patch.diff" 2>/tmp/seedwt-$N.apply.log || apply=FAIL
build=ok; go build ./... >/dev/null 2>&1 || build=FAIL
suite=FAIL; go test -vet=off -count=1 ./... >/tmp/seedwt-$N.suite.log 2>&1 && suite=ok
cp "$D/zz_demo_test.go" . ; demo_with=PASS
go test $RACE -vet=off -count=1 -run 'Demo|ZZ|zz' . >/tmp/seedwt-$N.with.log 2>&1 || demo_with=FAIL
cd /; git -C /repo worktree remove --force $WT
echo "$N apply=$apply build=$build suite=$suite demo_with=$demo_with demo_without=$demo_without"
rm -f /tmp/seedwt-$N.*.log
