#!/usr/bin/env python3
"""Writes seeded/<id>/meta.json from the table below plus .work/seed_verify.txt (confirmation) and .work/seed_matrix.txt (detection)."""
import json, os, re
T = {
 "C01-A": ("C01", "context.go add(): far-apart-operand fast path replaces the smaller operand by a sticky digit placed from Precision alone", "Add/Sub with exponent gap > 128, larger operand with >= Precision+3 digits whose discarded digits sit on a rounding boundary"),
 "C01-B": ("C01", "round.go Rounder.Round: integer half comparison against a scratch BigInt that QuoRem has already overwritten", "more than Precision+128 digits rounded under a half mode (Round/Add/Sub/Mul/parse)"),
 "C02-A": ("C02", "context.go Sqrt: working precision no longer widens to the operand's digit count", "Sqrt of an operand with many more digits than Precision whose root is extremely close to a <=P-digit value (Inexact lost / wrong side)"),
 "C02-B": ("C02", "context.go QuoInteger/Rem: early DivisionImpossible from a digit-count estimate that is one too large", "x.Exponent > y.Exponent, integer quotient of exactly Precision digits, significand of x smaller than that of y"),
 "C03-A": ("C03", "context.go Sqrt: masks Inexact|Rounded out of the working context's traps, final goError uses the masked set", "Sqrt with Inexact or Rounded trapped and an inexact root: flags raised, error nil"),
 "C03-B": ("C03", "context.go Reduce: returns early on a trap error, skipping the second strip", "Reduce whose rounding creates trailing zeros (9.95 at p=2, subnormal at Etiny) with that rounding's condition trapped: result/count differ from the untrapped run"),
 "C04-A": ("C04", "context.go Cbrt: working context derived from the caller's context instead of BaseContext", "Cbrt of an operand outside the context's exponent range, or with Inexact/Rounded trapped and an operand far from 1: range-reduction loop never exits"),
 "C04-B": ("C04", "const.go constWithPrecision.get rewritten with bits.Len32, bounds guard dropped", "Ln/Log10/Pow at Precision in about [2037, 3026]: index out of range panic"),
 "C05-A": ("C05", "context.go Cbrt: exactness check compares against the operand after the destination was written (rebased onto the fixed tree; identical to the C11-B submission)", "Cbrt(d, d) of a perfect cube: flags Rounded/Inexact differ from the un-aliased call"),
 "C05-B": ("C05", "context.go add(): x - x fast path for pointer-identical operands skips context rounding", "Sub with x and y the same object and an exponent outside the context's range (zero exponent not clamped, flags missing)"),
 "C06-A": ("C06", "decimal.go setString: stops clearing the destination coefficient", "NaN/sNaN/Inf string parsed into a reused Decimal with a non-zero coefficient: stale coefficient becomes the NaN payload"),
 "C06-B": ("C06", "context.go integerPower: shallow struct copy of the base shares the heap big.Int with the operand", "Pow(d, x, y) with a base of >= 39 digits and |integer part of y| >= 2: operand x is overwritten"),
 "C07-A": ("C07", "context.go Quo: subnormal test `adj > MinExponent` instead of `>=`", "inexact Quo whose quotient has adjusted exponent exactly MinExponent: Precision+1 digits, exponent Etiny-1, no Inexact"),
 "C07-B": ("C07", "context.go Cbrt: factors 10^3k out of the argument and re-applies it after the context rounding (rebased onto the fixed tree)", "Cbrt whose root is outside [MinExponent, MaxExponent]: finite result beyond the range, no Overflow/Subnormal"),
 "C08-A": ("C08", "context.go setAsNaN: Form = NaN hoisted before the signaling test", "sNaN operand that is also the destination (c.Add(x, x, y)): InvalidOperation lost"),
 "C08-B": ("C08", "context.go Pow: parity of y taken from the coefficient only", "(-0 or -Inf) ** integer y written with a positive exponent and an odd coefficient (1E+1): wrong sign"),
 "C09-A": ("C09", "context.go quantize: uint64 fast path whose half comparison 2*r overflows", "19-digit coefficient >= 2^63 with all 19 digits dropped under a half mode"),
 "C09-B": ("C09", "context.go quantize far-below-unit branch decides round-away from the mode name", "Round05Up with |x| < 0.1 unit of the target exponent"),
 "C10-A": ("C10", "context.go Rem: returns x unrounded when x is smaller than y and has the smaller exponent", "|x| < |y|, x.Exponent < y.Exponent, x has more digits than Precision"),
 "C10-B": ("C10", "context.go QuoInteger: early DivisionImpossible from adj(x)-adj(y)+1 > Precision", "quotient of exactly Precision digits with significand(x) < significand(y)"),
 "C11-A": ("C11", "context.go Sqrt: perfect-square fast path rounds with the caller's rounding mode", "perfect square with even exponent, coefficient < 2^64, root longer than Precision, mode other than half_even"),
 "C12-A": ("C12", "context.go Pow: early overflow bail-out bounds log10 of the result by a*y", "fractional y and an exact result in the top decade of the range"),
 "C12-B": ("C12", "context.go Exp: series length computed from a working precision that no longer includes the reduction digits", "Exp with |x| >= 10: several ulp off for a fraction of arguments"),
 "C13-A": ("C13", "decimal.go setString: uint64 fast path for the mantissa whose overflow guard misses the final + digit", "coefficient exactly 2^64 .. 2^64+3: parses back as 0..3"),
 "C13-B": ("C13", "decimal.go Float64: exact fast path applies the sign to an int64 before conversion", "negative zero with exponent in [-22, 22]: comes back as +0"),
 "C14-A": ("C14", "format.go Format: padding switch simplified, zero fill written before the sign", "'0' flag without '-', width larger than the text, finite value with a sign character"),
 "C14-B": ("C14", "decimal.go setString: passes len(mantissa) as the digit count to setExponent", "leading zeros in the mantissa with an adjusted exponent within that many units of the upper limit: grammatical string rejected"),
 "C15-A": ("C15", "decimal.go Cmp: uint64 fast path for the aligned comparison overflows", "equal adjusted exponents, 20-digit coefficient that fits uint64 against a value that scales to >= 2^64"),
 "C15-B": ("C15", "decimal.go CmpTotal: skip-alignment shortcut treats a zero as a 1-digit number", "zero whose exponent exceeds the other operand's by more than 128, other operand with a one-digit coefficient: not transitive"),
 "C16-A": ("C16", "bigint.go CmpAbs: shortcut returns -1 when y is not inline", "inline z against a heap-backed y that has shrunk to a small value"),
 "C16-B": ("C16", "bigint.go Add: two-word inline fast path loses the carry out of the high word", "two inline 65..128-bit operands whose high words sum to 2^64-1 with a carry from the low words"),
 "C17-A": ("C17", "decimal.go Int64: range check by digit count", "zero coefficient with exponent >= 19: range error instead of 0"),
 "C17-B": ("C17", "decimal.go Float64: fast path with a 16-digit guard (needs <= 2^53)", "16-digit coefficient above 2^53 with a non-zero exponent within +/-22: one or two ulp off"),
 "C18-A": ("C18", "table.go tableExp10: lazily filled unsynchronised memo for 10^129..10^640", "first request for such a power arriving from concurrent goroutines (exponent gap or digit cut > 128): data race, results stay correct"),
 "C18-B": ("C18", "bigint.go Set: compacts a heap-backed-but-small source in place", "shared operand that is heap-backed but fits 128 bits (reached through arithmetic history) copied by concurrent readers: write to a shared operand"),
 "C19-A": ("C19", "table.go NumDigits: fixed-point estimate of bits*log10(2) slightly too small", "bit lengths 15437, 17573, ... in the band [10^k, 2^bl): 10^4647 reported with 4647 digits"),
 "C19-B": ("C19", "decimal.go Decimal.Reduce big path: one descending pass of trial divisions by 10^128..10^1", ">= 256 trailing zeros: zeros left, count 255"),
 "C20-A": ("C20", "round.go: half comparison in uint64 with remVal<<1 overflowing", "exactly 19 digits discarded with fraction >= 0.9223 under a half mode: Round not monotone"),
 "R2-C01-A": ("C01", "table.go NumDigits: float64 estimate of log10|b| trusted unless within 1e-11 of an integer (less than one ulp once the estimate exceeds 65536)", "coefficient (operand or exact intermediate) of one of 1818 specific lengths >= 65557 digits starting with >= 11 nines: digit count one too high, result rounded to p-1 digits"),
 "R2-C02-A": ("C02", "bigint.go isZero()/decimal.go IsZero + setExponent: zero test that trusts stale inline words of a heap-backed BigInt (two cooperating edits)", "a zero computed in place on a coefficient wider than 128 bits, later used where zero is special (divisor, Inf*0, Quantize/RoundToIntegral with d==x): panic, missing DivisionByZero/InvalidOperation, or spurious Inexact"),
 "R2-C03-A": ("C03", "error.go ErrDecimal.Err: memoises its verdict per Flags value, ignoring later changes of Ctx.Traps or of Ctx", "an untrapped condition raised through an ErrDecimal, then the trap set tightened (or Ctx replaced) between calls: Err() stays nil and later destinations are written"),
 "R2-C04-A": ("C04", "table.go tableExp10: second lazily filled table of 10^(128i) with 1563 entries and no fallback", "NumDigits (or a parser) on an integer of about 200065 digits or more: index out of range panic"),
 "R2-C05-A": ("C05", "decimal.go Modf: uses frac.Coeff (or integ.Coeff) as the scratch for 10^exp", "Decimal.Modf with frac == receiver (or integ == receiver and frac nil), more than 128 fraction digits and a coefficient long enough for the point to fall inside it"),
 "R2-C06-A": ("C06", "decimal.go NewWithBigInt: struct assignment for non-negative coefficients shares a heap big.Int with the caller's BigInt", "NewWithBigInt from a BigInt >= 2^128 that is still in use (or used for a second Decimal), then an in-place operation on one of the sharers"),
 "R2-C07-A": ("C07", "table.go NumDigits: lookup-style shortcut for >128-bit values using floor(bl*30102999/1e8) (constant truncated to 8 digits)", "coefficient of exactly 4648 (8652, 9295, ...) digits in the window 10^4647 x [1, 1.0000992) rounded at a smaller Precision: Precision+1 digits kept"),
 "R2-C08-A": ("C08", "bigint.go isZero()/context.go quoSpecials, Rem: zero test that assumes a heap-backed BigInt is never zero", "a Decimal whose coefficient exceeded 2^128 and was brought to exactly 0 in place, then used as divisor (or dividend of x/0): panic or missing DivisionByZero/DivisionUndefined"),
 "R2-C17-A": ("C17", "decimal.go Float64: coefficients longer than 1024 digits are truncated before strconv.ParseFloat (sticky information lost)", "more than 1024 digits whose leading 1024 are exactly a float64 midpoint with a non-zero digit further down: wrong neighbour"),
 "R2-C19-A": ("C19", "table.go NumDigits: fixed-point log10(2) truncated (1292913986/2^32)", "bit length 70777 (141554, ...): 10^21306 reported with 21306 digits; propagates to Context.Reduce counts and Round"),
 "R2-C09-A": ("C09", "table.go tableExp10: lock-free direct-mapped cache (128 slots, key and value in separate atomics)", "concurrent Quantize/RoundToIntegral*/Ceil/Floor with different rescale distances > 128 that are congruent mod 128: a goroutine is handed the wrong power of ten; no data race"),
 "R2-C10-A": ("C10", "bigint.go Quo: 128-by-64-bit inline fast path whose write-back does not reset a heap-backed receiver", "QuoInteger into a destination that still holds a coefficient above 128 bits, dividend of 65..128 bits, divisor below 2^64, quotient at least 2^64: the stale coefficient is returned"),
 "R2-C20-A": ("C20", "decimal.go setExponent: subnormal rounding rewritten with QuoRem, power of ten aliased with the quotient scratch beyond the lookup table", "subnormal inexact result with more than 128 digits dropped at Etiny and a first dropped digit of 1..4 under a nearest mode: rounded up; Round not monotone between representations of different length"),
 "R2-C11-A": ("C11", "loop.go/context.go: Cbrt's convergence checker comes from a sync.Pool and is recycled with its previous estimate (prevZ) not reset, only after calls at Precision >= 19", "an earlier Cbrt at Precision >= 19 whose second-to-last estimate happens to agree with the current call's first Newton iterate to p+1 digits (probability about 2*10^-(p+1) per call, visible only for p >= 6): NOT detected by any check - each call is correct in isolation and the coincidence cannot be constructed from outside (see DESIGN 8.5)"),
 "R2-C12-A": ("C12", "context.go Pow: one-entry cache of ln(base) keyed on a struct copy of the base that shares its heap big.Int with the caller's operand", "fractional y, base of >= 39 digits, then the same operand object changed in place (same sign, exponent, digit count) and raised again at the same working precision: old_x ** y is returned. Caught by C06's same-object history family (the C12 oracle sees every single call correct on fresh operands)"),
 "R2-C13-A": ("C13", "bigint.go SetString: two-halves uint128 parser for 20..38-digit strings with a wrong carry test (<= instead of <)", "33..38-digit coefficient whose floor(c/10^19) is a non-zero multiple of 2^45 (2^a*10^b with b >= 19, a+b >= 64): parses back 2^64 too large"),
 "R2-C14-A": ("C14", "decimal.go setString: rejects mantissas longer than 200001 characters, counting insignificant leading zeros", "grammatical in-range numeric string of more than 200 KB (redundant leading zeros or all zeros)"),
 "R2-C15-A": ("C15", "decimal.go Cmp / table.go: digit-count bounds from the bit length with an integer approximation of log10(2) that is 3.6e-11 high", "coefficient of exactly 55267 (76573, 110534, ...) digits starting with 0.99998604...: Cmp wrong against an equal-or-larger operand with another exponent; only the thorough digit sweep reaches it"),
 "R2-C16-A": ("C16", "bigint.go Sqrt: float64 fast path for operands below 2^53", "operand k^2-1 in (2^52, 2^53): result one too large"),
 "R2-C18-A": ("C18", "table.go tableExp10: lock-free direct-mapped cache (512 slots) publishing value before key", "concurrent calls needing 10^x and 10^x' with x != x' congruent mod 512 (coefficients of 201 and 713 digits): wrong power of ten, no data race"),
 "C20-B": ("C20", "context.go add(): far-operand fast path passes y.Negative instead of the effective sign", "Sub with y tiny (gap > 128) under a directed mode: Sub(x,y) != Add(x,-y)"),
}
ver = {}
if os.path.exists('.work/seed_verify.txt'):
    for l in open('.work/seed_verify.txt'):
        p = l.split()
        if p: ver[p[0]] = dict(kv.split('=') for kv in p[1:])
caught = {}
if os.path.exists('.work/seed_matrix.txt'):
    for l in open('.work/seed_matrix.txt'):
        m = re.match(r'(\S+) (C\d+) rc=(\d+)', l)
        if m and m.group(3) == '1':
            caught.setdefault(m.group(1), []).append(m.group(2))
for name, (prop, what, needs) in sorted(T.items()):
    d = 'seeded/' + name
    if not os.path.isdir(d): continue
    meta = {"id": name, "property": prop, "origin": "written by an independent sub-agent that was given only the property text and a scratch git worktree of /repo (nothing from /verif)",
            "change": what, "needs_to_manifest": needs,
            "confirmed_in_scratch_worktree": ver.get(name, {}),
            "confirmation_cmd": "tools/seed_verify.sh seeded/%s  (patch applies and builds; repo suite `go test -vet=off -count=1 ./...` passes with it; zz_demo_test.go fails with it and passes without it)" % name,
            "detected_by_quick_checks": sorted(set(caught.get(name, []))),
            "detection_cmd": "tools/seed_run.sh %s <property>  (scratch worktree + VERIF_REPO; equivalent to git -C /repo apply / ./check / git -C /repo checkout -- .)" % name}
    json.dump(meta, open(d + '/meta.json', 'w'), indent=1)
print("meta written for", len([n for n in T if os.path.isdir('seeded/'+n)]))
