#!/usr/bin/env python3
"""Development-time cross-check of the interval enclosures (internal/encl) against CPython's decimal (libmpdec) computed
at 90 digits: every enclosure [lo, hi] must contain libmpdec's value up to libmpdec's own error bound (1 ulp at 90 digits).
Usage: VERIF_XCHECK_ENCL=/tmp/e.tsv ./check C12 quick; python3 tools/xcheck_encl.py /tmp/e.tsv"""
import sys, decimal
from decimal import Decimal, Context
decimal.getcontext().prec = 140
ctx = Context(prec=90, Emin=-999999999, Emax=999999999, traps=[])
def conv(s):
    neg = s.startswith('-'); t = s.lstrip('-')
    c, e = t.split('E')
    return Decimal(('-' if neg else '') + c + 'E' + e)
n = bad = 0
worst = Decimal(0)
for line in open(sys.argv[1]):
    op, x, y, lo, hi = line.rstrip('\n').split('\t')
    X = conv(x); lo = Decimal(lo); hi = Decimal(hi)
    try:
        if op == 'exp': v = ctx.exp(X)
        elif op == 'ln': v = ctx.ln(X)
        elif op == 'log10': v = ctx.log10(X)
        else: v = ctx.power(X, conv(y))
    except Exception as ex:
        continue
    if not v.is_finite() or v == 0: continue
    n += 1
    tol = abs(v) * Decimal('1e-88')     # libmpdec's error (<= 1 ulp at 90 digits) + the 70-digit printing of lo/hi
    tol2 = abs(v) * Decimal('1e-68')
    if v < lo - tol - tol2 or v > hi + tol + tol2:
        bad += 1
        if bad <= 10: print('OUTSIDE', op, x, y, lo, hi, v)
    w = (hi - lo) / abs(v)
    if w > worst: worst = w
print('enclosures checked', n, 'not containing libmpdec value', bad, 'widest relative width %.3e' % worst)
