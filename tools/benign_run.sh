#!/bin/bash
# tools/benign_run.sh: applies each behaviour-preserving patch of validation/benign/ to a scratch worktree and runs
# every quick check against it; every line must say rc=0 (a non-zero rc is a false alarm of that check).
cd "$(dirname "$0")/.."
for f in validation/benign/*.diff; do
  N=$(basename $f .diff); WT=/tmp/benign-$N
  git -C /repo worktree remove --force $WT >/dev/null 2>&1
  git -C /repo worktree add -q --detach $WT HEAD
  git -C $WT apply "$PWD/$f" || { echo "$N patch does not apply"; git -C /repo worktree remove --force $WT; continue; }
  (cd $WT && GOFLAGS=-mod=mod GOPROXY=off go test -vet=off -count=1 ./... >/dev/null 2>&1) && suite=ok || suite=FAIL
  for P in C01 C02 C03 C04 C05 C06 C07 C08 C09 C10 C11 C12 C13 C14 C15 C16 C17 C18 C19 C20; do
    out=$(VERIF_REPO=$WT VERIF_EVIDENCE_DIR=$PWD/.work/benign-ev timeout 1800 ./check $P quick 2>&1); rc=$?
    echo "$N suite=$suite $P rc=$rc $(echo "$out" | grep -m1 'kind=' | cut -c1-300)"
  done
  git -C /repo worktree remove --force $WT
done
