#!/usr/bin/env python3
"""Validates MANIFEST.json and evidence files against the schemas (run with python3-vt from /verif)."""
import json, jsonschema, sys, glob
jsonschema.validate(json.load(open('MANIFEST.json')), json.load(open('/root/.vp/MANIFEST.schema.json')))
print('manifest valid')
es = json.load(open('/root/.vp/EVIDENCE.schema.json'))
m = json.load(open('MANIFEST.json'))
for c in m['checks']:
    f = c['evidence_file']
    try:
        jsonschema.validate(json.load(open(f)), es)
        print(f, 'valid')
    except Exception as e:
        print(f, 'INVALID', str(e)[:300])
