#!/bin/bash
# tools/harvest9.sh <CNN>: copy a round-9 sub-agent's deliverables from /tmp/w9-CNN/_out/A into seeded/R9-CNN-A,
# remove its worktree, confirm the change (seed_verify) and run the property's quick check against it (seed_run).
set -u
P="$1"; cd "$(dirname "$0")/.."
S=/tmp/w9-$P/_out/A; D=seeded/R9-$P-A
[ -f $S/patch.diff ] && [ -f $S/zz_demo_test.go ] || { echo "$P: deliverables missing"; exit 2; }
mkdir -p $D; cp $S/patch.diff $S/zz_demo_test.go $D/; cp $S/note.txt $D/notes.md 2>/dev/null
git -C /repo worktree remove --force /tmp/w9-$P
tools/seed_verify.sh $D | tee $D/verify.txt
tools/seed_run.sh R9-$P-A $P | tee $D/run.txt
