// Package gen holds the seeded, boundary-biased generators shared by the
// monitors.
package gen

import (
	"math"
	"math/big"
	"os"
	"strings"

	"verif/internal/dec"
	"verif/internal/rng"
)

const (
	MaxExp = 100000
	MinExp = -100000
)

// The precisions beyond 100 straddle the sizes at which implementations
// switch representation or algorithm: 128 digits (the power-of-ten lookup
// table), 256/512, and a few hundred digits in between.
var precisions = []int64{1, 2, 3, 4, 5, 6, 7, 9, 12, 16, 19, 20, 34, 38, 39, 40, 77, 100, 127, 128, 129, 130, 131, 150, 200, 257, 300, 513}
var precWeights = []int{10, 12, 14, 10, 10, 6, 8, 8, 4, 6, 4, 4, 3, 2, 2, 2, 1, 1, 1, 1, 1, 1, 1, 1, 1, 1, 1, 1}

// Precision draws a precision (>= 1), small values favoured.
func Precision(r *rng.R) int64 { return precisions[r.Pick(precWeights...)] }

// SmallPrecision draws from 1..9.
func SmallPrecision(r *rng.R) int64 { return int64(1 + r.Intn(9)) }

type expRange struct{ emin, emax int64 }

var ranges = []expRange{{0, 0}, {-1, 1}, {-2, 9}, {-9, 9}, {-99, 99}, {-383, 384}, {-6143, 6144}, {-100000, 100000}, {-30, 30}, {0, 50}}
var rangeWeights = []int{4, 4, 10, 14, 12, 10, 6, 3, 8, 3}

// Mode draws one of the eight modes; rarely the empty or an unknown name,
// which apd documents as half_up.
func Mode(r *rng.R) string {
	v := r.Intn(100)
	if v < 96 {
		return dec.Modes[r.Intn(8)]
	}
	if v < 98 {
		return ""
	}
	return "bogus_mode"
}

// Context draws a well-formed context with Precision >= 1:
// -100000 <= Emin <= 0 <= Emax <= 100000 and P <= Emax.
func Context(r *rng.R) dec.Ctx {
	p := Precision(r)
	return ContextP(r, p)
}

func ContextP(r *rng.R, p int64) dec.Ctx {
	er := ranges[r.Pick(rangeWeights...)]
	emax := er.emax
	if emax < p && os.Getenv("VERIF_NARROW_EMAX") == "" {
		emax = p + int64(r.Intn(3))
	}
	return dec.Ctx{P: p, Emin: er.emin, Emax: emax, Mode: Mode(r)}
}

// Digits returns a decimal digit string of exactly n digits without a
// leading zero (n >= 1), drawn from the pattern families.
func Digits(r *rng.R, n int64) string {
	if n < 1 {
		n = 1
	}
	b := make([]byte, n)
	switch r.Pick(50, 8, 8, 6, 6, 6, 6, 5, 5) {
	case 0: // random
		for i := range b {
			b[i] = byte('0' + r.Intn(10))
		}
	case 1: // all nines
		for i := range b {
			b[i] = '9'
		}
	case 2: // 10^k
		for i := range b {
			b[i] = '0'
		}
		b[0] = '1'
	case 3: // 10^k + 1
		for i := range b {
			b[i] = '0'
		}
		b[0] = '1'
		b[n-1] = '1'
	case 4: // d 0 0 0 ... (long zero tail)
		for i := range b {
			b[i] = '0'
		}
		k := 1 + r.Intn(int(n))
		for i := 0; i < k; i++ {
			b[i] = byte('0' + r.Intn(10))
		}
	case 5: // 5 0 0 0
		for i := range b {
			b[i] = '0'
		}
		b[0] = '5'
	case 6: // nines then random tail
		k := r.Intn(int(n) + 1)
		for i := range b {
			if i < k {
				b[i] = '9'
			} else {
				b[i] = byte('0' + r.Intn(10))
			}
		}
	case 7: // 999...98 / 99..95
		for i := range b {
			b[i] = '9'
		}
		b[n-1] = byte('0' + r.Intn(10))
	case 8: // small digits
		for i := range b {
			b[i] = byte('0' + r.Intn(2))
		}
	}
	if b[0] == '0' {
		b[0] = byte('1' + r.Intn(9))
	}
	return string(b)
}

// TieDigits returns digits whose cut after keep digits is a tie, a near-tie
// or an all-nines carry: keep digits followed by a tail of extra digits.
func TieDigits(r *rng.R, keep, extra int64) string {
	if keep < 1 {
		keep = 1
	}
	if extra < 1 {
		extra = 1
	}
	head := []byte(Digits(r, keep))
	if r.Chance(1, 3) {
		for i := range head {
			head[i] = '9'
		}
		if r.Bool() && keep > 1 {
			head[keep-1] = byte('0' + r.Intn(10))
		}
	}
	tail := make([]byte, extra)
	for i := range tail {
		tail[i] = '0'
	}
	switch r.Pick(4, 3, 3, 2, 2, 1) {
	case 0: // exact tie 5000
		tail[0] = '5'
	case 1: // just below tie 4999..9
		tail[0] = '4'
		for i := int64(1); i < extra; i++ {
			tail[i] = '9'
		}
	case 2: // just above tie 500..01
		tail[0] = '5'
		tail[extra-1] = byte('1' + r.Intn(9))
		if extra == 1 {
			tail[0] = byte('5' + r.Intn(5))
			if tail[0] == '5' {
				tail[0] = '6'
			}
		}
	case 3: // tiny remainder 000..01
		tail[extra-1] = '1'
	case 4: // 999..9
		for i := range tail {
			tail[i] = '9'
		}
	case 5: // zeros only (exact)
	}
	return string(head) + string(tail)
}

func bigOf(s string) *big.Int {
	b, ok := new(big.Int).SetString(s, 10)
	if !ok {
		panic("bad digits " + s)
	}
	return b
}

// CoeffLen draws a coefficient length relative to precision p: mostly 1..p+3,
// sometimes up to 3p, rarely much longer.
func CoeffLen(r *rng.R, p int64) int64 {
	if p < 1 {
		p = 1
	}
	switch r.Pick(60, 20, 14, 4, 2) {
	case 0:
		return 1 + int64(r.Intn(int(p)+3))
	case 1:
		return p + int64(r.Intn(3)) - 1 + 1
	case 2:
		return 1 + int64(r.Intn(int(3*p)))
	case 3:
		return 20 + int64(r.Intn(40))
	default:
		return 100 + int64(r.Intn(300))
	}
}

// BoundaryCoeff draws a coefficient within a few units of a power of two at
// the word boundaries of the integer representations (32, 53, 63, 64, 65,
// 127, 128, 129 bits) or of 10^19/10^20 (the uint64 decimal boundary).
func BoundaryCoeff(r *rng.R) *big.Int {
	var v *big.Int
	if r.Chance(1, 3) {
		// 2^a * 10^b (+/- a small d): the values on which binary words and
		// decimal digit groups are zero at the same time
		v = new(big.Int).Lsh(big.NewInt(1), uint(r.Intn(129)))
		v.Mul(v, dec.Pow10(int64(r.Intn(41))))
		if r.Chance(1, 2) {
			v.Add(v, big.NewInt(r.Range(-2, 2)))
		}
		if v.Sign() <= 0 {
			v.SetInt64(1)
		}
		return v
	}
	if r.Chance(1, 4) {
		v = new(big.Int).Set(dec.Pow10(int64(18 + r.Intn(4))))
	} else {
		k := []uint{31, 32, 53, 63, 64, 65, 127, 128, 129}[r.Intn(9)]
		v = new(big.Int).Lsh(big.NewInt(1), k)
	}
	v.Add(v, big.NewInt(r.Range(-4, 4)))
	return v
}

// Coeff draws a non-zero coefficient relative to precision p.
func Coeff(r *rng.R, p int64) *big.Int {
	if r.Chance(1, 25) {
		return BoundaryCoeff(r)
	}
	n := CoeffLen(r, p)
	if n > p && r.Chance(1, 2) {
		return bigOf(TieDigits(r, p, n-p))
	}
	return bigOf(Digits(r, n))
}

// WithAdj places coefficient c so that its adjusted exponent is adj, clamped
// so that exponent and adjusted exponent stay within the package limits.
func WithAdj(neg bool, c *big.Int, adj int64) dec.D {
	nd := dec.NumDigits(c)
	e := adj - nd + 1
	if e < MinExp {
		e = MinExp
	}
	if e > MaxExp {
		e = MaxExp
	}
	if e+nd-1 > MaxExp {
		e = MaxExp - nd + 1
	}
	if e+nd-1 < MinExp {
		e = MinExp
	}
	return dec.D{Form: dec.Finite, Neg: neg, C: c, E: e}
}

// TargetAdj draws a target adjusted exponent for a result under context c,
// covering the normal interior, both edges and the subnormal band.
func TargetAdj(r *rng.R, c dec.Ctx) int64 {
	switch r.Pick(30, 14, 26, 18, 6, 6) {
	case 0: // around zero
		return r.Range(-c.P-3, c.P+3)
	case 1: // normal interior
		return r.Range(c.Emin, c.Emax)
	case 2: // subnormal band down to below Etiny
		return r.Range(c.Etiny()-3, c.Emin+1)
	case 3: // near Emax
		return r.Range(c.Emax-2, c.Emax+2)
	case 4: // far below
		return r.Range(c.Etiny()-40, c.Etiny()-1)
	default: // far above
		return r.Range(c.Emax+1, c.Emax+40)
	}
}

func clampAdj(a int64) int64 {
	if a > MaxExp {
		return MaxExp
	}
	if a < MinExp {
		return MinExp
	}
	return a
}

// Finite draws a finite, mostly non-zero decimal aimed at context c.
func Finite(r *rng.R, c dec.Ctx) dec.D {
	if r.Chance(1, 40) {
		return Zero(r)
	}
	return WithAdj(r.Bool(), Coeff(r, c.P), clampAdj(TargetAdj(r, c)))
}

// Zero draws a zero of either sign with an arbitrary exponent.
func Zero(r *rng.R) dec.D {
	var e int64
	switch r.Pick(4, 4, 1) {
	case 0:
		e = 0
	case 1:
		e = r.Range(-12, 12)
	default:
		e = r.Range(-3000, 3000)
	}
	return dec.Zero(r.Bool(), e)
}

// SpecialValue draws NaN, sNaN or an infinity of either sign in the canonical
// shape (zero coefficient and exponent).
func SpecialValue(r *rng.R) dec.D {
	f := []dec.Form{dec.NaN, dec.SNaN, dec.Inf}[r.Intn(3)]
	if f == dec.Inf && r.Bool() {
		return OverflowInf(r)
	}
	d := dec.Special(f, r.Bool())
	if f != dec.Inf && r.Chance(1, 3) {
		// a NaN that a program made out of an existing value (v.Form = NaN): the
		// exponent field still holds the old exponent, the coefficient is the
		// payload. The exponent of a NaN carries no meaning.
		d.C = big.NewInt(r.Range(0, 999999))
		d.E = r.Range(-30, 30)
	}
	return d
}

// OverflowInf draws an infinity in the representation the library produces
// when a result overflows: Form is Infinite while the rounded coefficient and
// the exponent of the would-be result are still in place. Its value is the
// infinity; only code that forgets to look at Form can tell the difference.
func OverflowInf(r *rng.R) dec.D {
	c := big.NewInt(r.Range(1, 999999999))
	switch r.Intn(4) {
	case 0:
		c = big.NewInt(r.Range(1, 99))
	case 1:
		c.Lsh(c, uint(r.Intn(120)))
	}
	return dec.D{Form: dec.Inf, Neg: r.Bool(), C: c, E: r.Range(-30, 400)}
}

// Any draws any well-formed decimal: mostly finite.
func Any(r *rng.R, c dec.Ctx) dec.D {
	if r.Chance(1, 12) {
		return SpecialValue(r)
	}
	return Finite(r, c)
}

// Pair draws operands (x, y) for a binary operation so that the exact result
// of op lands near a target band of context c. op is one of "add", "sub",
// "mul", "quo", "rem".
func Pair(r *rng.R, c dec.Ctx, op string) (dec.D, dec.D) {
	t := clampAdj(TargetAdj(r, c))
	xc, yc := Coeff(r, c.P), Coeff(r, c.P)
	xn, yn := r.Bool(), r.Bool()
	var x, y dec.D
	switch op {
	case "add", "sub", "rem", "quoint":
		var gap int64
		switch r.Pick(30, 30, 25, 10, 5) {
		case 0:
			gap = 0
		case 1:
			gap = r.Range(-2, 2)
		case 2:
			gap = r.Range(-c.P-2, c.P+2)
		case 3:
			gap = r.Range(-3*c.P-5, 3*c.P+5)
		default:
			gap = r.Range(-300, 300)
		}
		x = WithAdj(xn, xc, t)
		y = WithAdj(yn, yc, clampAdj(t-gap))
		if (op == "add" || op == "sub") && r.Chance(1, 40) {
			// exponents more than 100000 apart (the distance at which the internal
			// alignment gives up: an exponent-limit error is accepted there, a
			// delivered result must still be the correctly rounded one)
			hc := xc
			if r.Chance(1, 2) {
				hc = new(big.Int).Set(dec.Pow10(int64(r.Intn(int(c.P) + 1))))
			}
			x = WithAdj(xn, hc, r.Range(20000, 99000))
			y = WithAdj(yn, yc, -r.Range(20000, 99000))
			if r.Bool() {
				x, y = y, x
			}
		} else if (op == "add" || op == "sub") && r.Chance(1, 10) {
			// a power of ten and an operand far below it, at the place where the
			// rounding of the difference is decided: if the signs make it a
			// subtraction the leading digit cancels and the result gains a digit
			// position, so the decisive digit lies one place further down than a
			// sticky-digit shortcut sized from the larger operand expects
			j := int64(r.Intn(int(c.P)))
			x = WithAdj(xn, new(big.Int).Set(dec.Pow10(j)), t)
			var ls string
			switch r.Intn(3) {
			case 0:
				ls = Digits(r, int64(1+r.Intn(5)))
			case 1:
				ls = TieDigits(r, 1, int64(1+r.Intn(6)))[1:] + Digits(r, int64(r.Intn(140)))
			default:
				ls = string("456789"[r.Intn(6)]) + Digits(r, int64(60+r.Intn(90)))
			}
			lc, _ := new(big.Int).SetString(ls, 10)
			if lc == nil || lc.Sign() == 0 {
				lc = big.NewInt(5)
			}
			y = WithAdj(yn, lc, clampAdj(t-c.P-1+[]int64{-1, 0, 0, 0, 1}[r.Intn(5)]))
		} else if (op == "add" || op == "sub") && r.Chance(1, 8) {
			// cancellation: y = x with a perturbation in a far digit (or none)
			y = x.Clone()
			y.Neg = (op == "add") != x.Neg
			if r.Chance(2, 3) {
				nd := dec.NumDigits(y.C)
				k := int64(r.Intn(int(nd)))
				delta := new(big.Int).Set(dec.Pow10(k))
				if r.Bool() && y.C.Cmp(delta) > 0 {
					y.C.Sub(y.C, delta)
				} else {
					y.C.Add(y.C, delta)
				}
			}
			if r.Chance(1, 3) && y.E > MinExp+5 {
				// same value, different exponent (cohort member)
				k := int64(1 + r.Intn(4))
				y.C.Mul(y.C, dec.Pow10(k))
				y.E -= k
			}
		}
	case "mul":
		a := r.Range(-60, 60)
		if r.Chance(1, 4) {
			a = t / 2
		}
		x = WithAdj(xn, xc, clampAdj(a))
		y = WithAdj(yn, yc, clampAdj(t-a))
	case "quo":
		a := r.Range(-60, 60)
		if r.Chance(1, 4) {
			a = t / 2
		}
		x = WithAdj(xn, xc, clampAdj(t+a))
		y = WithAdj(yn, yc, clampAdj(a))
		if r.Chance(1, 6) {
			// exact quotient: x = y * k
			k := Coeff(r, c.P)
			x = dec.D{Form: dec.Finite, Neg: xn, C: new(big.Int).Mul(y.C, k), E: x.E}
			x = WithAdj(xn, x.C, clampAdj(t+a))
		}
	default:
		panic("gen.Pair: unknown op " + op)
	}
	if r.Chance(1, 60) {
		x = Zero(r)
	}
	if r.Chance(1, 60) {
		y = Zero(r)
	}
	return x, y
}

// Repeat returns s repeated n times.
func Repeat(s string, n int) string { return strings.Repeat(s, n) }

// CoincidenceExps returns the exponents k in [lo, hi] at which 10^k lies
// within the relative distance tol of a power of two (on either side). At
// these k - 21306, 42612, 63918, 76573, ... for tol 1e-4; 497, 643, 849, ...
// for looser ones - the decimal digit count and the bit length of a number
// are related by a margin so thin that any shortcut which derives one from
// the other with a rounded constant (a float64 or fixed-point log10(2) or
// log2(5)) is wrong there first. The list is computed, not tabulated.
func CoincidenceExps(lo, hi int64, tol float64) []int64 {
	const log2of10 = 3.3219280948873623478703194294894
	var out []int64
	for k := lo; k <= hi; k++ {
		f := float64(k) * log2of10
		f -= math.Floor(f)
		// 10^k = 2^(n+f): relative distance to 2^n is 2^f-1, to 2^(n+1) is 1-2^(f-1)
		if f*math.Ln2 < tol || (1-f)*math.Ln2 < tol {
			out = append(out, k)
		}
	}
	return out
}

// KeptBoundary draws a context and an operand such that the digits kept by a
// rounding to the context's precision are exactly a boundary value (2^k-1,
// 2^k, 2^k+1 for the word sizes, 10^k-1, 10^k) and the discarded tail is a
// tie, a near-tie, all nines or random: x = B*10^j + tail, Precision =
// digits(B). j is returned for Quantize-style use (target exponent x.E + j).
func KeptBoundary(r *rng.R) (dec.Ctx, dec.D, int64) {
	var b *big.Int
	if r.Chance(1, 4) {
		b = new(big.Int).Set(dec.Pow10(int64(1 + r.Intn(40))))
		if r.Bool() {
			b.Sub(b, big.NewInt(1))
		}
	} else {
		k := []uint{31, 32, 53, 63, 64, 65, 127, 128, 129}[r.Intn(9)]
		b = new(big.Int).Lsh(big.NewInt(1), k)
		b.Add(b, big.NewInt(r.Range(-2, 1)))
	}
	j := int64(1 + r.Intn(25))
	tail, _ := new(big.Int).SetString(TieDigits(r, 1, j)[1:], 10)
	if tail == nil || r.Chance(1, 4) {
		tail, _ = new(big.Int).SetString(Digits(r, j), 10)
		tail.Mod(tail, dec.Pow10(j))
	}
	c := new(big.Int).Mul(b, dec.Pow10(j))
	c.Add(c, tail)
	p := dec.NumDigits(b)
	ctx := ContextP(r, p)
	e := r.Range(-30, 10)
	return ctx, dec.D{Form: dec.Finite, Neg: r.Bool(), C: c, E: e}, j
}
