// Package mon is the monitoring runtime: deterministic parallel case
// execution, verdict collection, known-finding attribution, replay files and
// evidence output.
package mon

import (
	"encoding/json"
	"fmt"
	"hash/fnv"
	"os"
	"path/filepath"
	"runtime"
	"sort"
	"strconv"
	"sync"
	"sync/atomic"
	"time"

	"verif/internal/rng"
)

const (
	distinctCap = 4000000
	shards      = 64
)

// Root is the /verif directory (cwd of the check commands).
var Root = "."

type Violation struct {
	Kind   string                 `json:"kind"`
	Family string                 `json:"family"`
	Index  int64                  `json:"index"`
	Detail map[string]interface{} `json:"detail"`
	Path   string                 `json:"-"`
}

type Finding struct {
	ID       string                 `json:"id"`
	Property string                 `json:"property"`
	Class    string                 `json:"class"`
	Witness  map[string]interface{} `json:"witness"`
	Symptom  string                 `json:"symptom"`
	What     string                 `json:"what"`
}

type findingsFile struct {
	Findings []Finding `json:"findings"`
	Fixed    []string  `json:"fixed"`
}

type Replay struct {
	Property string                 `json:"property"`
	Tier     string                 `json:"tier"`
	Seed     int64                  `json:"seed"`
	Family   string                 `json:"family"`
	Index    int64                  `json:"index"`
	Kind     string                 `json:"kind"`
	Detail   map[string]interface{} `json:"detail"`
}

type Run struct {
	stalled int32 // set when a case did not return within the wall-clock watchdog
	ID      string
	Tier    string
	Seed    int64
	Workers int
	Level   string // evidence level, default "exploration"

	Rule        string
	Assumptions []string
	Exhaustive  bool

	start time.Time
	evals int64

	dmu      [shards]sync.Mutex
	distinct [shards]map[uint64]struct{}
	dcount   int64
	dcapped  int32

	mu        sync.Mutex
	hist      map[string]int64
	skipped   map[string]int64
	samples   []interface{}
	viols     []Violation
	nviol     int64
	kfHits    map[string]int64
	kfSample  map[string]map[string]interface{}
	extra     map[string]interface{}
	inconcl   []string
	families  map[string]int64
	witnesses map[string]func() (bool, string)

	findings []Finding
	replay   *Replay

	child            *childSpec
	childExtra       map[string]float64
	childViolCapture bool
}

func NewRun(id, tier string, seed int64) *Run {
	r := &Run{ID: id, Tier: tier, Seed: seed, Workers: runtime.NumCPU(), Level: "exploration", start: time.Now()}
	if r.Workers > 16 {
		r.Workers = 16
	}
	for i := range r.distinct {
		r.distinct[i] = make(map[uint64]struct{})
	}
	r.hist = map[string]int64{}
	r.skipped = map[string]int64{}
	r.kfHits = map[string]int64{}
	r.kfSample = map[string]map[string]interface{}{}
	r.extra = map[string]interface{}{}
	r.families = map[string]int64{}
	r.witnesses = map[string]func() (bool, string){}
	r.loadFindings()
	return r
}

func (r *Run) loadFindings() {
	b, err := os.ReadFile(filepath.Join(Root, "known_findings.json"))
	if err != nil {
		return
	}
	var f findingsFile
	if err := json.Unmarshal(b, &f); err != nil {
		r.Inconclusive("known_findings.json unreadable: " + err.Error())
		return
	}
	for _, e := range f.Findings {
		if e.Property == r.ID {
			r.findings = append(r.findings, e)
		}
	}
}

// SetReplay restricts execution to one case.
func (r *Run) SetReplay(rp *Replay) { r.replay = rp }

func (r *Run) IsReplay() bool { return r.replay != nil }

// Quick reports whether this is the quick tier.
func (r *Run) Quick() bool { return r.Tier != "thorough" }

// N picks a case count by tier.
func (r *Run) N(quick, thorough int64) int64 {
	if r.Quick() {
		return quick
	}
	return thorough
}

// T is the per-case handle passed to case functions.
type T struct {
	R      *Run
	Family string
	Index  int64
	Rng    *rng.R
	lh     map[string]int64
	ls     map[string]int64
	evals  int64
	// watchdog bookkeeping (set by ParallelW)
	started *int64
	current *int64
}

func (t *T) flush() {
	r := t.R
	atomic.AddInt64(&r.evals, t.evals)
	t.evals = 0
	if len(t.lh) == 0 && len(t.ls) == 0 {
		return
	}
	r.mu.Lock()
	for k, v := range t.lh {
		r.hist[k] += v
	}
	for k, v := range t.ls {
		r.skipped[k] += v
	}
	r.mu.Unlock()
	t.lh = map[string]int64{}
	t.ls = map[string]int64{}
}

// Eval counts one decided event.
func (t *T) Eval() { t.evals++ }

// EvalN counts n decided events.
func (t *T) EvalN(n int64) { t.evals += n }

// Count increments a histogram class.
func (t *T) Count(class string) { t.lh[class]++ }

// Skip counts a case outside the property's domain.
func (t *T) Skip(reason string) { t.ls[reason]++ }

// Nontrivial records a distinct non-trivial case by fingerprint.
func (t *T) Nontrivial(fp string) {
	h := fnv.New64a()
	h.Write([]byte(fp))
	t.R.addDistinct(h.Sum64())
}

func (r *Run) addDistinct(k uint64) {
	if atomic.LoadInt32(&r.dcapped) != 0 {
		return
	}
	s := k % shards
	r.dmu[s].Lock()
	if _, ok := r.distinct[s][k]; !ok {
		r.distinct[s][k] = struct{}{}
		if atomic.AddInt64(&r.dcount, 1) >= distinctCap {
			atomic.StoreInt32(&r.dcapped, 1)
		}
	}
	r.dmu[s].Unlock()
}

// Sample offers a sample case for the evidence file (the first few are kept).
func (t *T) Sample(v interface{}) {
	r := t.R
	r.mu.Lock()
	if len(r.samples) < 6 {
		r.samples = append(r.samples, v)
	}
	r.mu.Unlock()
}

// WantSample reports whether more samples are wanted (cheap check so callers
// can avoid building the sample).
func (t *T) WantSample() bool {
	r := t.R
	r.mu.Lock()
	n := len(r.samples)
	r.mu.Unlock()
	return n < 6 && t.Index%97 == 3
}

// Fail records a violation of the property by this case.
func (t *T) Fail(kind string, detail map[string]interface{}) {
	t.FailClass(kind, "", detail)
}

// FailClass records a violated event. If class is non-empty and a known
// finding of this property lists that class, the event is attributed to the
// finding instead of being reported as a violation.
func (t *T) FailClass(kind, class string, detail map[string]interface{}) {
	r := t.R
	if class != "" {
		for _, f := range r.findings {
			if f.Class == class {
				r.mu.Lock()
				r.kfHits[f.ID]++
				if _, ok := r.kfSample[f.ID]; !ok {
					r.kfSample[f.ID] = detail
				}
				r.mu.Unlock()
				return
			}
		}
	}
	n := atomic.AddInt64(&r.nviol, 1)
	if n > 20 {
		return
	}
	v := Violation{Kind: kind, Family: t.Family, Index: t.Index, Detail: detail}
	if r.childViolCapture {
		// child process: hand the violation to the parent
		r.mu.Lock()
		r.viols = append(r.viols, v)
		r.mu.Unlock()
		return
	}
	dir := filepath.Join(Root, "replay")
	os.MkdirAll(dir, 0o755)
	name := fmt.Sprintf("%s-%s-%d-%d.json", r.ID, r.Tier, r.Seed, n)
	v.Path = filepath.Join("replay", name)
	rp := Replay{Property: r.ID, Tier: r.Tier, Seed: r.Seed, Family: t.Family, Index: t.Index, Kind: kind, Detail: detail}
	b, _ := json.MarshalIndent(rp, "", " ")
	os.WriteFile(filepath.Join(dir, name), b, 0o644)
	r.mu.Lock()
	r.viols = append(r.viols, v)
	r.mu.Unlock()
	fmt.Printf("VIOLATION property=%s replay=%s\n", r.ID, v.Path)
	fmt.Printf("  kind=%s family=%s index=%d detail=%s\n", kind, t.Family, t.Index, compact(detail))
}

func compact(v interface{}) string {
	b, err := json.Marshal(v)
	if err != nil {
		return fmt.Sprint(v)
	}
	if len(b) > 1500 {
		return string(b[:1500]) + "..."
	}
	return string(b)
}

// Inconclusive marks the run as unable to decide.
func (r *Run) Inconclusive(why string) {
	r.mu.Lock()
	r.inconcl = append(r.inconcl, why)
	r.mu.Unlock()
}

// Extra adds a key to the coverage object of the evidence file.
func (r *Run) Extra(k string, v interface{}) {
	r.mu.Lock()
	r.extra[k] = v
	r.mu.Unlock()
}

// Hist returns the current count of a histogram class.
func (r *Run) Hist(class string) int64 {
	r.mu.Lock()
	defer r.mu.Unlock()
	return r.hist[class]
}

// Require marks the run inconclusive unless the class was observed at least
// min times (coverage quota).
func (r *Run) Require(class string, min int64) {
	if r.IsReplay() {
		return
	}
	if got := r.Hist(class); got < min {
		r.Inconclusive(fmt.Sprintf("coverage quota not met: class %q observed %d < %d", class, got, min))
	}
}

// Witness registers the pinned witness of a known finding: fn reports whether
// it still fails on the current tree.
func (r *Run) Witness(findingID string, fn func() (bool, string)) {
	r.mu.Lock()
	r.witnesses[findingID] = fn
	r.mu.Unlock()
}

// Findings returns the known findings listed for this property.
func (r *Run) Findings() []Finding { return r.findings }

// Parallel runs fn for case indices 0..n-1 of the named family on the worker
// pool. Case i always gets the same generator whatever the scheduling.
func (r *Run) Parallel(family string, n int64, fn func(t *T)) {
	r.ParallelW(family, n, r.Workers, fn)
}

// ParallelW is Parallel with an explicit worker count.
func (r *Run) ParallelW(family string, n int64, workers int, fn func(t *T)) {
	if r.child != nil {
		return // child processes run only their own isolated family
	}
	r.mu.Lock()
	r.families[family] += n
	r.mu.Unlock()
	if r.replay != nil {
		if r.replay.Family != family {
			return
		}
		t := &T{R: r, Family: family, Index: r.replay.Index, Rng: rng.New(r.Seed, family, r.replay.Index), lh: map[string]int64{}, ls: map[string]int64{}}
		runCase(t, fn)
		t.flush()
		return
	}
	if workers < 1 {
		workers = 1
	}
	if atomic.LoadInt32(&r.stalled) != 0 {
		return // an earlier family left a case that never returned: nothing more is started
	}
	var next int64
	const chunk = 64
	var wg sync.WaitGroup
	started := make([]int64, workers) // unix nanoseconds at which the worker's current case began (0 = idle)
	current := make([]int64, workers)
	for w := 0; w < workers; w++ {
		wg.Add(1)
		w := w
		go func() {
			defer wg.Done()
			t := &T{R: r, Family: family, lh: map[string]int64{}, ls: map[string]int64{}}
			t.started, t.current = &started[w], &current[w]
			for {
				lo := atomic.AddInt64(&next, chunk) - chunk
				if lo >= n {
					break
				}
				hi := lo + chunk
				if hi > n {
					hi = n
				}
				for i := lo; i < hi; i++ {
					if atomic.LoadInt64(&r.nviol) > 200 {
						break
					}
					t.Index = i
					t.Rng = rng.New(r.Seed, family, i)
					atomic.StoreInt64(t.current, i)
					atomic.StoreInt64(t.started, time.Now().UnixNano())
					runCase(t, fn)
					atomic.StoreInt64(t.started, 0)
				}
				t.flush()
			}
			t.flush()
		}()
	}
	// Wall-clock watchdog: a case that does not return is not a verdict of this
	// family (the logical budgets are), but it must not keep the check from
	// finishing. When it fires the run is marked inconclusive, nothing further
	// is started, and whatever was decided so far is reported.
	done := make(chan struct{})
	go func() { wg.Wait(); close(done) }()
	limit := caseTimeout()
	for {
		select {
		case <-done:
			return
		case <-time.After(5 * time.Second):
			now := time.Now().UnixNano()
			for w := range started {
				if st := atomic.LoadInt64(&started[w]); st != 0 && time.Duration(now-st) > limit {
					atomic.StoreInt32(&r.stalled, 1)
					r.Inconclusive(fmt.Sprintf("%s case %d did not return within the wall-clock watchdog (%v); no logical budget fired, so this is not a verdict", family, atomic.LoadInt64(&current[w]), limit))
					return
				}
			}
		}
	}
}

// caseTimeout is the wall-clock watchdog per case (VERIF_CASE_TIMEOUT seconds, default 900).
func caseTimeout() time.Duration {
	if v, err := strconv.Atoi(os.Getenv("VERIF_CASE_TIMEOUT")); err == nil && v > 0 {
		return time.Duration(v) * time.Second
	}
	return 900 * time.Second
}

// Serial runs a single pseudo-case (for monitors that are not case-parallel).
func (r *Run) Serial(family string, fn func(t *T)) {
	r.ParallelW(family, 1, 1, fn)
}

type evidence struct {
	PropertyID  string                 `json:"property_id"`
	Tier        string                 `json:"tier"`
	Seed        int64                  `json:"seed"`
	Level       string                 `json:"level"`
	Coverage    map[string]interface{} `json:"coverage"`
	Assumptions []string               `json:"assumptions"`
	WallS       float64                `json:"wall_s"`
	Violations  int64                  `json:"violations"`
	Verdict     string                 `json:"verdict"`
}

// Finish evaluates witnesses, writes the evidence file and returns the exit
// code (0 held, 1 violated, 2 inconclusive).
func (r *Run) Finish() int {
	// Known findings: run pinned witnesses.
	kfReport := []map[string]interface{}{}
	for _, f := range r.findings {
		entry := map[string]interface{}{"id": f.ID, "class": f.Class, "hits": r.kfHits[f.ID]}
		if s, ok := r.kfSample[f.ID]; ok {
			entry["sample_hit"] = s
		}
		if fn, ok := r.witnesses[f.ID]; ok && !r.IsReplay() {
			still, what := fn()
			entry["witness_still_fails"] = still
			if still {
				fmt.Printf("KNOWN-FINDING: property=%s %s (%s) %s\n", r.ID, f.ID, f.What, what)
			} else {
				fmt.Printf("note: known finding %s no longer reproduces on this tree (%s)\n", f.ID, what)
			}
		} else if !ok && !r.IsReplay() {
			entry["witness_still_fails"] = nil
			fmt.Printf("KNOWN-FINDING: property=%s %s (%s) [no executable witness registered]\n", r.ID, f.ID, f.What)
		}
		kfReport = append(kfReport, entry)
	}
	wall := time.Since(r.start).Seconds()
	cov := map[string]interface{}{}
	for k, v := range r.extra {
		cov[k] = v
	}
	for k, v := range r.childExtra {
		cov["max_"+k] = v
	}
	cov["evaluations"] = atomic.LoadInt64(&r.evals)
	cov["distinct_nontrivial"] = atomic.LoadInt64(&r.dcount)
	if atomic.LoadInt32(&r.dcapped) != 0 {
		cov["distinct_capped"] = true
	}
	cov["rule"] = r.Rule
	samples := r.samples
	if len(samples) == 0 {
		samples = []interface{}{}
	}
	cov["samples"] = samples
	cov["exhaustive"] = r.Exhaustive
	cov["classes"] = sortedMap(r.hist)
	cov["skipped"] = sortedMap(r.skipped)
	cov["families"] = sortedMap(r.families)
	cov["known_findings"] = kfReport
	cov["workers"] = r.Workers
	if len(r.inconcl) > 0 {
		cov["inconclusive_reasons"] = r.inconcl
	}
	verdict := "held"
	code := 0
	nv := atomic.LoadInt64(&r.nviol)
	if nv > 0 {
		verdict = "violated"
		code = 1
	} else if len(r.inconcl) > 0 {
		verdict = "inconclusive"
		code = 2
	}
	ev := evidence{PropertyID: r.ID, Tier: r.Tier, Seed: r.Seed, Level: r.Level, Coverage: cov,
		Assumptions: r.Assumptions, WallS: wall, Violations: nv, Verdict: verdict}
	if ev.Assumptions == nil {
		ev.Assumptions = []string{}
	}
	if !r.IsReplay() {
		evdir := filepath.Join(Root, "evidence")
		if d := os.Getenv("VERIF_EVIDENCE_DIR"); d != "" {
			evdir = d // development only (mutant campaigns); registered commands never set it
		}
		os.MkdirAll(evdir, 0o755)
		b, err := json.MarshalIndent(ev, "", " ")
		if err != nil {
			fmt.Println("evidence marshal error:", err)
			return 2
		}
		if err := os.WriteFile(filepath.Join(evdir, r.ID+".json"), b, 0o644); err != nil {
			fmt.Println("evidence write error:", err)
			return 2
		}
	}
	fmt.Printf("%s %s seed=%d: %s — evaluations=%d distinct_nontrivial=%d violations=%d wall=%.1fs\n",
		r.ID, r.Tier, r.Seed, verdict, ev.Coverage["evaluations"], ev.Coverage["distinct_nontrivial"], nv, wall)
	for _, w := range r.inconcl {
		fmt.Println("INCONCLUSIVE:", w)
	}
	return code
}

func sortedMap(m map[string]int64) map[string]int64 {
	// encoding/json sorts map keys; copy to detach from concurrent use.
	out := make(map[string]int64, len(m))
	keys := make([]string, 0, len(m))
	for k := range m {
		keys = append(keys, k)
	}
	sort.Strings(keys)
	for _, k := range keys {
		out[k] = m[k]
	}
	return out
}

// LoadReplay reads a replay file.
func LoadReplay(path string) (*Replay, error) {
	b, err := os.ReadFile(path)
	if err != nil {
		return nil, err
	}
	var rp Replay
	if err := json.Unmarshal(b, &rp); err != nil {
		return nil, err
	}
	return &rp, nil
}

// runCase runs one case; a panic escaping from it (the monitors recover the
// panics they expect) is reported as a violation of the running property:
// no exported apd entry point may panic on well-formed input.
func runCase(t *T, fn func(t *T)) {
	defer func() {
		if p := recover(); p != nil {
			buf := make([]byte, 4096)
			buf = buf[:runtime.Stack(buf, false)]
			t.Fail("panic", map[string]interface{}{"panic": fmt.Sprint(p), "stack": string(buf), "why": "panic during a monitored call"})
		}
	}()
	fn(t)
}
