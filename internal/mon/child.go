package mon

import (
	"bufio"
	"encoding/json"
	"fmt"
	"math"
	"os"
	"os/exec"
	"path/filepath"
	"strconv"
	"strings"
	"sync"
	"sync/atomic"
	"time"

	"verif/internal/rng"
)

// Child-process isolation: families whose subject can crash or hang the
// process run in children. The parent hands each child a case range; the
// child appends the case index to a journal before executing it and writes
// its partial results to a file at exit. A child that dies is attributed to
// the last journalled case, which is then re-run alone for confirmation.

type childSpec struct {
	Family string
	Lo, Hi int64
	Out    string
}

type childResult struct {
	Evals    int64              `json:"evals"`
	Hist     map[string]int64   `json:"hist"`
	Skipped  map[string]int64   `json:"skipped"`
	Distinct []uint64           `json:"distinct"`
	Samples  []interface{}      `json:"samples"`
	Viols    []Violation        `json:"viols"`
	NViol    int64              `json:"nviol"`
	KfHits   map[string]int64   `json:"kf_hits"`
	Extra    map[string]float64 `json:"extra"`
}

// ParseChildArgs recognises "--child family lo hi out" after the tier.
func (r *Run) ParseChildArgs(args []string) error {
	if len(args) < 5 || args[0] != "--child" {
		return fmt.Errorf("bad child arguments")
	}
	lo, err1 := strconv.ParseInt(args[2], 10, 64)
	hi, err2 := strconv.ParseInt(args[3], 10, 64)
	if err1 != nil || err2 != nil {
		return fmt.Errorf("bad child range")
	}
	r.child = &childSpec{Family: args[1], Lo: lo, Hi: hi, Out: args[4]}
	return nil
}

func (r *Run) IsChild() bool { return r.child != nil }

// Isolated runs fn for indices 0..n-1 of family in child processes (k
// children in parallel, each serial). perCaseTimeout bounds the wall time a
// child may spend per case on average; its firing alone is inconclusive.
func (r *Run) Isolated(family string, n int64, k int, childTimeout time.Duration, fn func(t *T)) {
	if r.replay != nil {
		// replay: run the single case in-process, serially
		r.ParallelW(family, n, 1, fn)
		return
	}
	if r.child != nil {
		if r.child.Family != family {
			return
		}
		r.runChildRange(fn)
		return
	}
	r.mu.Lock()
	r.families[family] += n
	r.mu.Unlock()
	if k < 1 {
		k = 1
	}
	if int64(k) > n {
		k = int(n)
	}
	// one directory per run (several runs of the same check may be in progress
	// at once when seeded changes are tried in scratch worktrees)
	work := filepath.Join(Root, ".work", fmt.Sprintf("child-%s-%d", r.ID, os.Getpid()))
	os.MkdirAll(work, 0o755)
	defer os.RemoveAll(work)
	var wg sync.WaitGroup
	per := (n + int64(k) - 1) / int64(k)
	var crashes int64
	for i := 0; i < k; i++ {
		lo := int64(i) * per
		hi := lo + per
		if hi > n {
			hi = n
		}
		if lo >= hi {
			continue
		}
		wg.Add(1)
		go func(i int, lo, hi int64) {
			defer wg.Done()
			r.superviseChild(work, family, i, lo, hi, childTimeout, &crashes, fn)
		}(i, lo, hi)
	}
	wg.Wait()
	r.Extra("children_"+family, k)
	r.Extra("child_crashes_"+family, atomic.LoadInt64(&crashes))
}

func (r *Run) spawn(work, family string, tag string, lo, hi int64, timeout time.Duration) (res *childResult, journalLast int64, exitErr error, output string) {
	out := filepath.Join(work, fmt.Sprintf("%s-%s.json", family, tag))
	journal := out + ".journal"
	logf := out + ".log"
	os.Remove(out)
	os.Remove(journal)
	secs := int(timeout.Seconds())
	if secs < 10 {
		secs = 10
	}
	args := []string{"-s", "QUIT", "-k", "10", strconv.Itoa(secs), os.Args[0], r.ID, r.Tier, "--child", family, strconv.FormatInt(lo, 10), strconv.FormatInt(hi, 10), out}
	cmd := exec.Command("timeout", args...)
	cmd.Env = append(os.Environ(), "VERIF_SEED="+strconv.FormatInt(r.Seed, 10), "GOTRACEBACK=all")
	lf, _ := os.Create(logf)
	cmd.Stdout = lf
	cmd.Stderr = lf
	exitErr = cmd.Run()
	lf.Close()
	journalLast = -1
	if f, err := os.Open(journal); err == nil {
		sc := bufio.NewScanner(f)
		for sc.Scan() {
			if v, err := strconv.ParseInt(strings.TrimSpace(sc.Text()), 10, 64); err == nil {
				journalLast = v
			}
		}
		f.Close()
	}
	if b, err := os.ReadFile(out); err == nil {
		var cr childResult
		if json.Unmarshal(b, &cr) == nil {
			res = &cr
		}
	}
	if b, err := os.ReadFile(logf); err == nil {
		if len(b) > 6000 {
			b = append(b[:3000], b[len(b)-3000:]...)
		}
		output = string(b)
	}
	return
}

func (r *Run) superviseChild(work, family string, i int, lo, hi int64, timeout time.Duration, crashes *int64, fn func(t *T)) {
	for lo < hi {
		res, last, err, output := r.spawn(work, family, fmt.Sprintf("c%d-%d", i, lo), lo, hi, timeout)
		if res != nil {
			r.merge(res)
		}
		if err == nil && res != nil {
			return
		}
		// the child died: attribute to the last journalled case
		atomic.AddInt64(crashes, 1)
		if last < lo {
			r.Inconclusive(fmt.Sprintf("child for %s[%d,%d) died before its first case: %v\n%s", family, lo, hi, err, output))
			return
		}
		timedOut := false
		if ee, ok := err.(*exec.ExitError); ok && (ee.ExitCode() == 124 || ee.ExitCode() == 137) {
			timedOut = true
		}
		// confirm by re-running the single case in a fresh child
		_, _, err2, output2 := r.spawn(work, family, fmt.Sprintf("confirm-%d", last), last, last+1, timeout)
		t := &T{R: r, Family: family, Index: last, Rng: rng.New(r.Seed, family, last), lh: map[string]int64{}, ls: map[string]int64{}}
		if err2 != nil {
			timedOut2 := false
			if ee, ok := err2.(*exec.ExitError); ok && (ee.ExitCode() == 124 || ee.ExitCode() == 137) {
				timedOut2 = true
			}
			if timedOut2 {
				r.Inconclusive(fmt.Sprintf("%s case %d did not finish within the wall-clock watchdog (%v) twice; no logical budget fired, so this is not a verdict", family, last, timeout))
			} else {
				t.Fail("process-crash", map[string]interface{}{"why": "the process died while executing this case (confirmed by re-running it alone)", "exit": err2.Error(), "output": tail(output2, 2500)})
			}
		} else if !timedOut {
			// not reproducible alone: report the first crash as inconclusive
			r.Inconclusive(fmt.Sprintf("child for %s died at case %d (%v) but the case passes alone\n%s", family, last, err, tail(output, 1500)))
		}
		t.flush()
		lo = last + 1
	}
}

func tail(s string, n int) string {
	if len(s) <= n {
		return s
	}
	return s[len(s)-n:]
}

func (r *Run) merge(cr *childResult) {
	atomic.AddInt64(&r.evals, cr.Evals)
	for _, k := range cr.Distinct {
		r.addDistinct(k)
	}
	r.mu.Lock()
	for k, v := range cr.Hist {
		r.hist[k] += v
	}
	for k, v := range cr.Skipped {
		r.skipped[k] += v
	}
	for k, v := range cr.KfHits {
		r.kfHits[k] += v
	}
	for _, s := range cr.Samples {
		if len(r.samples) < 6 {
			r.samples = append(r.samples, s)
		}
	}
	for k, v := range cr.Extra {
		if old, ok := r.extra["max_"+k].(float64); !ok || v > old {
			r.extra["max_"+k] = v
		}
	}
	r.mu.Unlock()
	for _, v := range cr.Viols {
		// re-register in the parent so that replay files and VIOLATION lines are produced here
		t := &T{R: r, Family: v.Family, Index: v.Index, lh: map[string]int64{}, ls: map[string]int64{}}
		t.Fail(v.Kind, v.Detail)
	}
	if extra := cr.NViol - int64(len(cr.Viols)); extra > 0 {
		atomic.AddInt64(&r.nviol, extra)
	}
}

// ChildMax records a per-child maximum (e.g. tick high-water mark); the
// parent keeps the maximum over children under coverage key "max_<name>".
func (r *Run) ChildMax(name string, v float64) {
	// the evidence is JSON: keep the value finite
	if math.IsNaN(v) {
		return
	}
	if math.IsInf(v, 1) || v > 1e300 {
		v = 1e300
	}
	if math.IsInf(v, -1) || v < -1e300 {
		v = -1e300
	}
	r.mu.Lock()
	if r.childExtra == nil {
		r.childExtra = map[string]float64{}
	}
	if old, ok := r.childExtra[name]; !ok || v > old {
		r.childExtra[name] = v
	}
	r.mu.Unlock()
}

func (r *Run) runChildRange(fn func(t *T)) {
	cs := r.child
	r.childViolCapture = true
	jf, _ := os.OpenFile(cs.Out+".journal", os.O_CREATE|os.O_WRONLY|os.O_TRUNC, 0o644)
	t := &T{R: r, Family: cs.Family, lh: map[string]int64{}, ls: map[string]int64{}}
	for i := cs.Lo; i < cs.Hi; i++ {
		if jf != nil {
			jf.WriteString(strconv.FormatInt(i, 10) + "\n")
		}
		t.Index = i
		t.Rng = rng.New(r.Seed, cs.Family, i)
		runCase(t, fn)
	}
	t.flush()
	if jf != nil {
		jf.Close()
	}
}

// FinishChild writes the child's partial results and returns the exit code.
func (r *Run) FinishChild() int {
	cr := childResult{Evals: atomic.LoadInt64(&r.evals), Hist: r.hist, Skipped: r.skipped, Samples: r.samples, Viols: r.viols,
		NViol: atomic.LoadInt64(&r.nviol), KfHits: r.kfHits, Extra: r.childExtra}
	for s := range r.distinct {
		for k := range r.distinct[s] {
			cr.Distinct = append(cr.Distinct, k)
		}
	}
	b, err := json.Marshal(cr)
	if err != nil {
		fmt.Println("child marshal error:", err)
		return 3
	}
	if err := os.WriteFile(r.child.Out, b, 0o644); err != nil {
		fmt.Println("child write error:", err)
		return 3
	}
	return 0
}
