// Package gda holds the independent text models: a recogniser of the General
// Decimal Arithmetic numeric-string grammar and the to-scientific-string
// writer. It does not import apd.
package gda

import (
	"math/big"
	"strconv"
	"strings"

	"verif/internal/dec"
)

// Parsed is the result of recognising a numeric string.
type Parsed struct {
	OK   bool
	Form dec.Form
	Neg  bool
	// Coeff digits (finite numbers) or payload digits (NaNs); may be empty for NaN/Inf.
	Digits string
	// Exp is the written exponent adjusted by the fraction length; ExpOverflow
	// is set if the written exponent field does not fit comfortably in int64.
	Exp         int64
	ExpOverflow bool
	// WrittenExp is the exponent field as written (0 if absent).
	WrittenExp int64
}

func isDigit(c byte) bool { return c >= '0' && c <= '9' }

func lower(c byte) byte {
	if c >= 'A' && c <= 'Z' {
		return c + 32
	}
	return c
}

func eqFold(s, t string) bool {
	if len(s) != len(t) {
		return false
	}
	for i := 0; i < len(s); i++ {
		if lower(s[i]) != t[i] {
			return false
		}
	}
	return true
}

// Recognise decides membership in the grammar
//
//	sign? (digits ('.' digits?)? | '.' digits) ([eE] sign? digits)?
//	sign? inf(inity)?   |   sign? s?nan digits*
//
// ASCII case-insensitive, nothing else.
func Recognise(s string) Parsed {
	var p Parsed
	i := 0
	if i < len(s) && (s[i] == '+' || s[i] == '-') {
		p.Neg = s[i] == '-'
		i++
	}
	rest := s[i:]
	if eqFold(rest, "inf") || eqFold(rest, "infinity") {
		p.OK, p.Form = true, dec.Inf
		return p
	}
	if len(rest) >= 3 && eqFold(rest[:3], "nan") {
		if allDigits(rest[3:]) {
			p.OK, p.Form, p.Digits = true, dec.NaN, rest[3:]
		}
		return p
	}
	if len(rest) >= 4 && eqFold(rest[:4], "snan") {
		if allDigits(rest[4:]) {
			p.OK, p.Form, p.Digits = true, dec.SNaN, rest[4:]
		}
		return p
	}
	// numeric
	j := 0
	for j < len(rest) && isDigit(rest[j]) {
		j++
	}
	intPart := rest[:j]
	frac := ""
	if j < len(rest) && rest[j] == '.' {
		k := j + 1
		for k < len(rest) && isDigit(rest[k]) {
			k++
		}
		frac = rest[j+1 : k]
		j = k
	}
	if intPart == "" && frac == "" {
		return p
	}
	var exp int64
	if j < len(rest) {
		if lower(rest[j]) != 'e' {
			return p
		}
		j++
		eneg := false
		if j < len(rest) && (rest[j] == '+' || rest[j] == '-') {
			eneg = rest[j] == '-'
			j++
		}
		ed := rest[j:]
		if ed == "" || !allDigits(ed) {
			return p
		}
		t := strings.TrimLeft(ed, "0")
		if len(t) > 12 {
			p.ExpOverflow = true
			exp = 1 << 50
		} else if t != "" {
			exp, _ = strconv.ParseInt(t, 10, 64)
		}
		if eneg {
			exp = -exp
		}
	}
	p.OK, p.Form = true, dec.Finite
	p.Digits = intPart + frac
	p.WrittenExp = exp
	p.Exp = exp - int64(len(frac))
	return p
}

func allDigits(s string) bool {
	for i := 0; i < len(s); i++ {
		if !isDigit(s[i]) {
			return false
		}
	}
	return true
}

// Value returns the parsed finite value.
func (p Parsed) Value() dec.D {
	switch p.Form {
	case dec.Inf, dec.NaN, dec.SNaN:
		return dec.Special(p.Form, p.Neg)
	}
	c, _ := new(big.Int).SetString(p.Digits, 10)
	return dec.D{Form: dec.Finite, Neg: p.Neg, C: c, E: p.Exp}
}

// ZeroPlainLimit is the documented exception: a zero with exponent in
// [ZeroPlainLimit, -1] is written in plain notation.
const ZeroPlainLimit = -2000

// SciString is the to-scientific-string conversion of the specification,
// written from its text: plain notation iff exponent <= 0 and adjusted
// exponent >= -6, otherwise one digit, fraction and a signed exponent; with
// apd's documented exception for zeros with exponent in [-2000,-1].
func SciString(d dec.D) string {
	sign := ""
	if d.Neg {
		sign = "-"
	}
	switch d.Form {
	case dec.Inf:
		return sign + "Infinity"
	case dec.NaN:
		return sign + "NaN"
	case dec.SNaN:
		return sign + "sNaN"
	}
	digits := d.C.String()
	n := int64(len(digits))
	adj := d.E + n - 1
	plain := d.E <= 0 && adj >= -6
	if d.C.Sign() == 0 && d.E < 0 && d.E >= ZeroPlainLimit {
		plain = true
	}
	if plain {
		if d.E == 0 {
			return sign + digits
		}
		pointPos := n + d.E // digits before the point
		if pointPos > 0 {
			return sign + digits[:pointPos] + "." + digits[pointPos:]
		}
		return sign + "0." + strings.Repeat("0", int(-pointPos)) + digits
	}
	var sb strings.Builder
	sb.WriteString(sign)
	sb.WriteByte(digits[0])
	if n > 1 {
		sb.WriteByte('.')
		sb.WriteString(digits[1:])
	}
	sb.WriteByte('E')
	if adj >= 0 {
		sb.WriteByte('+')
	}
	sb.WriteString(strconv.FormatInt(adj, 10))
	return sb.String()
}
