package props

import (
	"fmt"
	"math/big"
	"os"
	"strings"
	"sync"

	"github.com/cockroachdb/apd/v3"

	"verif/internal/br"
	"verif/internal/dec"
	"verif/internal/gen"
	"verif/internal/mon"
	"verif/internal/rng"
)

func init() {
	register("C01", runC01)
}

var arithOps = []string{"add", "sub", "mul", "quo"}
var unaryOps = []string{"abs", "neg", "round"}

// arithCase evaluates one (op, ctx, x, y) event of the single-rounding
// arithmetic operations for C01 (value), C02 (flags) or C07 (fit).
func arithCase(t *mon.T, which string, op string, c dec.Ctx, x, y dec.D) {
	e := ModelArith(op, c, x, y)
	o := CallArith(op, br.Context(c, 0), x, y)
	judge(t, which, op, c, x, y, e, o)
}

// Development-time dump of model expectations for the libmpdec cross-check
// (tools/xcheck_round.py); enabled by VERIF_XCHECK_DUMP=<file>.
var (
	xcheckDump *os.File
	xcheckMu   sync.Mutex
	xcheckN    int
)

func init() {
	if p := os.Getenv("VERIF_XCHECK_DUMP"); p != "" {
		xcheckDump, _ = os.Create(p)
	}
}

func xcheckWrite(op string, c dec.Ctx, x, y dec.D, e Expect) {
	xcheckMu.Lock()
	defer xcheckMu.Unlock()
	if xcheckN >= 400000 {
		return
	}
	xcheckN++
	ys := ""
	if y.C != nil {
		ys = y.FullString()
	}
	want := "NaN"
	if !e.ResNaN {
		want = e.Res.FullString()
	}
	fmt.Fprintf(xcheckDump, "%s\t%d\t%d\t%d\t%s\t%s\t%s\t%s\t%s\t%s\n", op, c.P, c.Emin, c.Emax, c.Mode, x.FullString(), ys, want, br.FlagNames(e.Must), e.Class)
}

// judge compares one outcome with the model's expectation. which selects the
// aspect: "value", "flags", "fit", or "all".
func judge(t *mon.T, which string, op string, c dec.Ctx, x, y dec.D, e Expect, o Outcome) bool {
	t.Eval()
	if xcheckDump != nil && e.Skip == "" {
		xcheckWrite(op, c, x, y, e)
	}
	if e.Skip != "" {
		t.Skip(e.Skip)
		if o.Flags&sysFlags != 0 && !e.SystemLimitOK {
			t.Fail("system-limit-inside-limits", detail(op, c, x, y, o, "exponent-limit condition although all exponents are well inside the limits"))
		}
		return false
	}
	if e.SystemLimitOK && isSystemOutcome(o) {
		// close to the package limits an exponent-limit error is an accepted
		// outcome; a delivered result is judged below like any other
		t.Skip("near-system-limit")
		return false
	}
	if o.Flags&sysFlags != 0 || (o.Err != nil && strings.Contains(o.Err.Error(), "exponent out of range")) {
		t.Fail("system-limit-inside-limits", detail(op, c, x, y, o, "exponent-limit error although all exponents are well inside the limits"))
		return false
	}
	if o.Err != nil {
		t.Fail("unexpected-error", detail(op, c, x, y, o, "error with empty trap set"))
		return false
	}
	t.Count(op + "/" + c.Mode + "/" + e.Class)
	t.Count("class/" + e.Class)
	t.Count("op/" + op)
	if e.Nontrivial {
		t.Nontrivial(fmt.Sprintf("%s|%s|%s|%s", op, c, x.FullString(), y.FullString()))
	}
	var why string
	if which == "all" {
		which = "value,flags,fit"
	}
	if strings.Contains(which, "value") {
		why = CheckValue(e, o)
	}
	if why == "" && strings.Contains(which, "flags") {
		why = CheckFlags(e, o)
	}
	if why == "" && strings.Contains(which, "fit") {
		why = CheckFit(c, o)
	}
	if why != "" {
		d := detail(op, c, x, y, o, why)
		if e.ResNaN {
			d["expected"] = "NaN"
		} else {
			d["expected"] = e.Res.FullString()
		}
		d["class"] = e.Class
		d["must"] = br.FlagNames(e.Must)
		d["must_not"] = br.FlagNames(e.MustNot)
		t.Fail(which+"-mismatch", d)
		return false
	}
	if t.WantSample() {
		t.Sample(map[string]interface{}{"op": op, "ctx": c.String(), "x": x.String(), "y": fmt.Sprint(y), "result": o.Res.String(),
			"flags": br.FlagNames(o.Flags), "model_class": e.Class})
	}
	return true
}

// decimalString writes a finite decimal in a randomly chosen grammatical
// style whose exact value is d.
func decimalString(r *rng.R, d dec.D) string {
	digits := d.C.String()
	if r.Chance(1, 5) {
		digits = strings.Repeat("0", 1+r.Intn(3)) + digits
	}
	longZeros := r.Chance(1, 12)
	if longZeros {
		// the plain notation of a very small number: dozens of zeros before the
		// first significant digit (they are part of the mantissa text, not of its value)
		digits = strings.Repeat("0", 20+r.Intn(80)) + digits
	}
	n := len(digits)
	j := n // digits after position j form the fraction
	if r.Chance(2, 3) {
		j = r.Intn(n + 1)
	}
	if longZeros && r.Bool() {
		j = r.Intn(2) // 0.000...0ddd or .000...0ddd
	}
	exp := d.E + int64(n-j)
	var sb strings.Builder
	if d.Neg {
		sb.WriteByte('-')
	} else if r.Chance(1, 6) {
		sb.WriteByte('+')
	}
	sb.WriteString(digits[:j])
	if j < n || r.Chance(1, 8) {
		sb.WriteByte('.')
		sb.WriteString(digits[j:])
	}
	if j == 0 && n == 0 {
		sb.WriteByte('0')
	}
	if exp != 0 || r.Chance(1, 4) {
		if r.Bool() {
			sb.WriteByte('e')
		} else {
			sb.WriteByte('E')
		}
		if exp >= 0 && r.Bool() {
			sb.WriteByte('+')
		}
		fmt.Fprintf(&sb, "%d", exp)
	}
	return sb.String()
}

func parseCase(t *mon.T, c dec.Ctx, d dec.D) {
	s := decimalString(t.Rng, d)
	ctx := br.Context(c, 0)
	got, flags, err := ctx.NewFromString(s)
	t.Eval()
	if nearSystemLimit(d.E, d.Adj(), d.E+int64(len(s))) {
		t.Skip("near-system-limit")
		return
	}
	if err != nil || got == nil {
		t.Fail("parse-error", map[string]interface{}{"op": "parse", "ctx": c.String(), "s": s, "err": fmt.Sprint(err)})
		return
	}
	o := Outcome{Res: br.FromApd(got), Flags: flags, Raw: got}
	ex := dec.ExactOf(d)
	var e Expect
	if ex.IsZero() {
		e = Expect{Res: dec.Zero(d.Neg, 0), Class: "exact-zero"}
	} else {
		e = fromRounded(dec.RoundOnce(ex, c))
	}
	if e.Skip != "" {
		t.Skip(e.Skip)
		return
	}
	t.Count("parse/" + c.Mode + "/" + e.Class)
	t.Count("class/" + e.Class)
	if e.Nontrivial {
		t.Nontrivial("parse|" + c.String() + "|" + s)
	}
	if why := CheckValue(e, o); why != "" {
		t.Fail("value-mismatch", map[string]interface{}{"op": "parse", "ctx": c.String(), "s": s, "got": o.Res.FullString(),
			"expected": e.Res.FullString(), "flags": br.FlagNames(flags), "why": why})
	}
}

// p0Case checks the Precision 0 clause: exact results, no digit limit.
func p0Case(t *mon.T) {
	r := t.Rng
	c := gen.ContextP(r, int64(1+r.Intn(20)))
	ops := []string{"add", "sub", "mul", "abs", "neg", "round", "reduce"}
	op := ops[r.Intn(len(ops))]
	var x, y dec.D
	if op == "add" || op == "sub" || op == "mul" {
		x, y = gen.Pair(r, c, op)
	} else {
		x = gen.Finite(r, c)
	}
	c.P = 0
	if r.Chance(1, 2) {
		c.Emin, c.Emax = gen.MinExp, gen.MaxExp // BaseContext
		c.Mode = ""
	}
	if op == "reduce" {
		o := CallArith(op, br.Context(c, 0), x, y)
		t.Eval()
		adj := x.Adj()
		if x.IsZero() || adj > c.Emax || adj < c.Emin {
			t.Skip("reduce-p0-zero-or-outside-range")
			return
		}
		t.Count("p0/reduce")
		t.Nontrivial("p0|reduce|" + x.FullString())
		if o.Err != nil || !dec.SameValue(o.Res, x) {
			t.Fail("value-mismatch", detail(op, c, x, y, o, "Reduce at Precision 0 must return a value equal to the operand"))
		}
		return
	}
	arithCase(t, "value", op, c, x, y)
}

// gridValues enumerates the small operand grid of the thorough tier.
func gridValues() []dec.D {
	var vs []dec.D
	for _, neg := range []bool{false, true} {
		for c := int64(0); c <= 99; c++ {
			for e := int64(-3); e <= 2; e++ {
				vs = append(vs, dec.D{Form: dec.Finite, Neg: neg, C: big.NewInt(c), E: e})
			}
		}
	}
	return vs
}

var gridContexts = func() []dec.Ctx {
	var cs []dec.Ctx
	for _, p := range []int64{1, 2, 3} {
		for _, er := range [][2]int64{{-1, 3}, {-3, 4}, {-99, 99}} {
			cs = append(cs, dec.Ctx{P: p, Emin: er[0], Emax: er[1]})
		}
	}
	return cs
}()

// gridRun enumerates every ordered pair of the grid for the four binary
// operations under all modes and the nine grid contexts (thorough tier).
func gridRun(r *mon.Run, which string) {
	vs := gridValues()
	n := int64(len(vs))
	r.Parallel("grid", n*n, func(t *mon.T) {
		x, y := vs[t.Index/n], vs[t.Index%n]
		for _, c := range gridContexts {
			for _, m := range dec.Modes {
				c.Mode = m
				for _, op := range arithOps {
					arithCase(t, which, op, c, x, y)
				}
			}
		}
	})
	r.Extra("grid_pairs", n*n)
	r.Extra("grid_exhaustive", "every ordered pair of {±0..99 x 10^-3..2} x {add,sub,mul,quo} x 8 modes x 9 contexts")
}

// pinnedC01 are the witnesses of defects repaired by fix: commits; they are
// re-checked on every run.
func pinnedArith(t *mon.T, which string) {
	type pin struct {
		op   string
		c    dec.Ctx
		x, y string
	}
	pins := []pin{
		{"add", dec.Ctx{P: 3, Emin: -9, Emax: 9, Mode: "floor"}, "-15E-12", "0E0"},
		{"add", dec.Ctx{P: 3, Emin: -9, Emax: 9, Mode: "ceiling"}, "-15E-12", "0E0"},
		{"sub", dec.Ctx{P: 3, Emin: -9, Emax: 9, Mode: "floor"}, "-15E-12", "0E0"},
		{"mul", dec.Ctx{P: 3, Emin: -9, Emax: 9, Mode: "floor"}, "-15E-12", "1E0"},
		{"round", dec.Ctx{P: 3, Emin: -9, Emax: 9, Mode: "floor"}, "-15E-12", ""},
		{"quo", dec.Ctx{P: 3, Emin: -9, Emax: 9, Mode: "half_even"}, "10000001E-18", "2E0"},
		{"quo", dec.Ctx{P: 2, Emin: -2, Emax: 9, Mode: "down"}, "9E-7", "-9999E-8"},
		{"quo", dec.Ctx{P: 3, Emin: -9, Emax: 9, Mode: "half_even"}, "9996E0", "1E0"},
		{"quo", dec.Ctx{P: 3, Emin: -9, Emax: 9, Mode: "up"}, "9991E0", "1E0"},
	}
	for _, p := range pins {
		x, _ := dec.Parse(p.x)
		var y dec.D
		if p.y != "" {
			y, _ = dec.Parse(p.y)
		}
		arithCase(t, which, p.op, p.c, x, y)
		t.Count("pinned")
	}
}

// coincidenceExps: the k <= 100000 at which 10^k lies within 5e-4 of a power
// of two; see gen.CoincidenceExps.
var coincidenceExps = gen.CoincidenceExps(129, 100000, 5e-4)

// coincidenceArithCase makes the exact result (or an operand) a number of
// k+1 digits just above 10^k for such a k - the numbers whose digit count a
// bit-length based estimate gets wrong first - and has it rounded at a small
// precision: 1E+k + v, Round(10^k + v), (10^k + v) / 1, (10^j + a)(10^(k-j) + b).
func coincidenceArithCase(t *mon.T, which string) {
	r := t.Rng
	k := coincidenceExps[t.Index%int64(len(coincidenceExps))]
	c := dec.Ctx{P: int64(1 + r.Intn(30)), Emin: -100000, Emax: 100000, Mode: gen.Mode(r)}
	neg := r.Bool()
	small := big.NewInt(r.Range(1, 99))
	if r.Chance(1, 3) {
		// a tail that is a tie or near-tie one digit below the last kept digit
		small = new(big.Int).Mul(big.NewInt(r.Range(4, 6)), dec.Pow10(k-c.P-1))
		small.Add(small, big.NewInt(r.Range(-1, 1)))
	}
	big1 := new(big.Int).Add(dec.Pow10(k), small)
	one := dec.FromInt(1, 0)
	switch r.Intn(4) {
	case 0:
		arithCase(t, which, []string{"add", "sub"}[r.Intn(2)], c, dec.D{Form: dec.Finite, Neg: neg, C: big.NewInt(1), E: k},
			dec.D{Form: dec.Finite, Neg: neg != (r.Intn(2) == 0), C: small, E: 0})
	case 1:
		arithCase(t, which, "round", c, dec.D{Form: dec.Finite, Neg: neg, C: big1, E: -r.Range(0, 50)}, dec.D{})
	case 2:
		arithCase(t, which, "quo", c, dec.D{Form: dec.Finite, Neg: neg, C: big1, E: 0}, one)
	default:
		j := r.Range(1, k-1)
		arithCase(t, which, "mul", c, dec.D{Form: dec.Finite, Neg: neg, C: new(big.Int).Add(dec.Pow10(j), big.NewInt(r.Range(0, 9))), E: 0},
			dec.D{Form: dec.Finite, C: new(big.Int).Add(dec.Pow10(k-j), big.NewInt(r.Range(0, 9))), E: 0})
	}
	t.Count("coincidence-lengths")
}

// keptBoundaryCase: roundings whose kept digits are exactly a word-size or
// power-of-ten boundary value (gen.KeptBoundary), through Round, Add, Sub and
// Mul.
func keptBoundaryCase(t *mon.T, which string) {
	r := t.Rng
	c, x, _ := gen.KeptBoundary(r)
	switch r.Intn(4) {
	case 0:
		arithCase(t, which, "round", c, x, dec.D{})
	case 1:
		// the same value assembled by an addition: head + tail
		j := int64(1 + r.Intn(int(x.Digits()-1)))
		hi, lo := new(big.Int).QuoRem(x.C, dec.Pow10(j), new(big.Int))
		arithCase(t, which, "add", c, dec.D{Form: dec.Finite, Neg: x.Neg, C: hi, E: x.E + j}, dec.D{Form: dec.Finite, Neg: x.Neg, C: lo, E: x.E})
	case 2:
		arithCase(t, which, "mul", c, x, dec.D{Form: dec.Finite, C: big.NewInt(1), E: r.Range(-3, 3)})
	default:
		arithCase(t, which, "sub", c, x, dec.Zero(r.Bool(), x.E-r.Range(0, 3)))
	}
	t.Count("kept-boundary")
}

// giantRoundCase: coefficients of 100002..200001 digits next to a power of
// ten, rounded to a precision of tens of thousands of digits (the rounding
// step refuses to drop more than 100000 digits, so the precision has to be
// that large): through Round, Abs, Neg, Add and Mul.
func giantRoundCase(t *mon.T, which string, L int64) {
	r := t.Rng
	var cf *big.Int
	switch r.Intn(3) {
	case 0:
		cf = new(big.Int).Sub(dec.Pow10(L), big.NewInt(r.Range(1, 999)))
	case 1: // many leading nines, generic tail
		cf = new(big.Int).Sub(dec.Pow10(L), new(big.Int).Add(dec.Pow10(L-int64(12+r.Intn(30))), big.NewInt(r.Range(0, 999999))))
	default:
		cf = new(big.Int).Add(dec.Pow10(L-1), big.NewInt(r.Range(0, 999)))
	}
	c := dec.Ctx{P: L - r.Range(1, 99000), Emin: -100000, Emax: 100000, Mode: gen.Mode(r)}
	// the exponent must lie within the limits, and so must the adjusted exponent
	x := dec.D{Form: dec.Finite, Neg: r.Bool(), C: cf, E: r.Range(-100000, 100001-L)}
	switch r.Intn(5) {
	case 0:
		arithCase(t, which, "round", c, x, dec.D{})
	case 1:
		arithCase(t, which, "abs", c, x, dec.D{})
	case 2:
		arithCase(t, which, "neg", c, x, dec.D{})
	case 3:
		arithCase(t, which, "add", c, x, dec.Zero(false, x.E))
	default:
		arithCase(t, which, "mul", c, x, dec.FromInt(1, 0))
	}
	t.Count("giant-round")
}

// hugePrecisionCase: Precision from 2^31 to MaxUint32 ("unlimited"): no
// operation other than Quo and the transcendental functions gets slower with
// it, the results are simply exact - but conversions of Precision to int32
// wrap there. The exponent limits still apply.
func hugePrecisionCase(t *mon.T, which string) {
	r := t.Rng
	gc := gen.Context(r)
	if gc.P > 40 {
		gc.P = 40
	}
	c := gc
	c.P = []int64{1 << 31, 1<<31 + 7, 3000000000, 4294967295, 1<<31 - 1, 4294967294}[r.Intn(6)]
	switch r.Intn(3) {
	case 0:
		op := []string{"add", "sub", "mul"}[r.Intn(3)]
		x, y := gen.Pair(r, gc, op)
		arithCase(t, which, op, c, x, y)
	case 1:
		arithCase(t, which, unaryOps[r.Intn(3)], c, gen.Finite(r, gc), dec.D{})
	default:
		// on the overflow edge of the caller's range
		cf := gen.Coeff(r, gc.P)
		x := gen.WithAdj(r.Bool(), cf, gc.Emax-int64(r.Intn(2)))
		y := gen.WithAdj(x.Neg, gen.Coeff(r, gc.P), gc.Emax-int64(r.Intn(2)))
		arithCase(t, which, []string{"add", "mul", "round"}[r.Intn(3)], c, x, y)
	}
	t.Count("huge-precision")
}

func runC01(r *mon.Run) {
	r.Rule = "cases: (op, context, operands) drawn by seeded boundary-biased generators (ties, near-ties, all-nines carries, " +
		"subnormal band, Etiny, Emax edge, cancellation, operands longer than Precision), context-aware parsing of generated " +
		"numeric strings, Precision-0 exactness, pinned witnesses of repaired defects; thorough adds the exhaustive small grid. " +
		"Each apd result is compared numerically (sign of zero included) with the exact result rounded once by an independent " +
		"big-integer model. distinct_nontrivial = distinct (op,context,operands) whose exact result was inexact, subnormal, " +
		"overflowed or cancelled to zero."
	r.Assumptions = []string{"math/big is correct", "the reference rounding table (internal/dec) implements the GDA rounding modes",
		"operand exponents within 99000 of zero (closer to the package limits an exponent-limit error is accepted)"}
	r.Serial("pinned", func(t *mon.T) { pinnedArith(t, "value") })
	r.Parallel("arith", r.N(400000, 30000000), func(t *mon.T) {
		c := gen.Context(t.Rng)
		op := arithOps[t.Rng.Intn(4)]
		x, y := gen.Pair(t.Rng, c, op)
		arithCase(t, "value", op, c, x, y)
	})
	r.Parallel("unary", r.N(120000, 6000000), func(t *mon.T) {
		c := gen.Context(t.Rng)
		op := unaryOps[t.Rng.Intn(3)]
		x := gen.Finite(t.Rng, c)
		arithCase(t, "value", op, c, x, dec.D{})
	})
	r.Parallel("parse", r.N(100000, 5000000), func(t *mon.T) {
		c := gen.Context(t.Rng)
		parseCase(t, c, gen.Finite(t.Rng, c))
	})
	r.Parallel("p0", r.N(60000, 3000000), p0Case)
	r.Parallel("coincidence-lengths", int64(len(coincidenceExps))*r.N(3, 40), func(t *mon.T) { coincidenceArithCase(t, "value") })
	r.Require("coincidence-lengths", 300)
	r.Parallel("kept-boundary", r.N(20000, 1500000), func(t *mon.T) { keptBoundaryCase(t, "value") })
	r.Parallel("giant-round", r.N(600, 100000), func(t *mon.T) {
		L := 100002 + t.Index
		if r.Quick() {
			L = t.Rng.Range(100002, 200001)
		}
		giantRoundCase(t, "value,fit", L)
	})
	r.Require("giant-round", 500)
	r.Parallel("huge-precision", r.N(6000, 400000), func(t *mon.T) { hugePrecisionCase(t, "value") })
	r.Require("huge-precision", 5000)
	if !r.Quick() {
		gridRun(r, "value")
	}
	for _, cl := range []string{"class/tie", "class/carry", "class/subnormal-inexact", "class/subnormal-exact", "class/subnormal-to-zero",
		"class/overflow", "class/cancel-to-zero", "class/below-half", "class/above-half", "class/exact"} {
		r.Require(cl, 50)
	}
	r.Require("pinned", 9)
	_ = apd.Finite
}
