package props

import (
	"fmt"
	"math/big"
	"math/rand"
	"strings"

	"github.com/cockroachdb/apd/v3"

	"verif/internal/br"
	"verif/internal/dec"
	"verif/internal/gen"
	"verif/internal/mon"
	"verif/internal/rng"
)

func init() {
	register("C05", runC05)
	register("C06", runC06)
}

var allCtxOps = []string{"add", "sub", "mul", "quo", "quoint", "rem", "pow", "cmp", "abs", "neg", "round", "quantize", "rtie", "rtiv",
	"ceil", "floor", "reduce", "sqrt", "cbrt", "exp", "ln", "log10"}

func isComposite(op string) bool {
	switch op {
	case "sqrt", "cbrt", "exp", "ln", "log10", "pow", "ceil", "floor":
		return true
	}
	return false
}

// reprOf renders every field of a Decimal including the BigInt representation.
func reprOf(a *apd.Decimal) string {
	r := a.Coeff.VerifRepr()
	r.HeapPtr = 0
	return fmt.Sprintf("form=%d neg=%v exp=%d coeff=%s", a.Form, a.Negative, a.Exponent, r.String())
}

// meaningful renders the fields of a result that carry meaning for its form.
func meaningful(d dec.D) string {
	switch d.Form {
	case dec.Inf:
		return fmt.Sprintf("%sInf", map[bool]string{true: "-", false: ""}[d.Neg])
	case dec.NaN, dec.SNaN:
		return fmt.Sprintf("%s payload=%s", d.FullString(), d.C.String())
	}
	return d.FullString()
}

// opOperands draws (op, ctx, x, y, aux) for the relational monitors. The
// transcendental operations get modest precisions and magnitudes.
func opOperands(r *rng.R) (op string, c dec.Ctx, x, y dec.D, aux int64) {
	op = allCtxOps[r.Intn(len(allCtxOps))]
	c = gen.Context(r)
	switch op {
	case "add", "sub", "mul", "quo":
		x, y = gen.Pair(r, c, op)
	case "quoint", "rem":
		x, y = remPair(r, c)
	case "cmp":
		x, y = gen.Pair(r, c, "add")
	case "pow":
		if c.P > 16 {
			c.P = 16
		}
		x = smallOperand(r, c)
		y = powExponent(r)
		if r.Chance(1, 8) {
			// x = t^2 (or t^4) with t ending in 5 at digit Precision+1, y = 0.5
			// (0.25, 1.5): the exact power is a tie of the caller's rounding
			tt := new(big.Int).Add(new(big.Int).Mul(big.NewInt(r.Range(1, 99)), big.NewInt(10)), big.NewInt(5))
			if c.P > 2 {
				tt = new(big.Int).Add(new(big.Int).Mul(gen.Coeff(r, c.P), big.NewInt(10)), big.NewInt(5))
			}
			k := []int64{2, 4}[r.Intn(2)]
			x = dec.D{Form: dec.Finite, C: new(big.Int).Exp(tt, big.NewInt(k), nil), E: -k * r.Range(0, 3)}
			y = dec.D{Form: dec.Finite, C: big.NewInt(map[int64]int64{2: 5, 4: 25}[k]), E: map[int64]int64{2: -1, 4: -2}[k]}
			if dec.NumDigits(x.C) > 2*c.P+8 {
				x = smallOperand(r, c)
				y = powExponent(r)
			}
		}
	case "quantize":
		x, aux = quantizeOperand(r, c)
	case "rtie", "rtiv", "ceil", "floor":
		x = modfOperand(r, c)
	case "sqrt", "cbrt":
		x = sqrtOperand(r, c)
		if abs64(x.E) > 300 {
			x.E %= 300
		}
		if op == "cbrt" {
			x.Neg = r.Bool()
			if c.P > 30 {
				c.P = 30
			}
		}
		if r.Chance(1, 6) {
			// a perfect square/cube whose root lies at or just below the bottom of
			// the normal range: the exact result is subnormal (or tiny) but needs
			// no rounding
			k := int64(2)
			if op == "cbrt" {
				k = 3
			}
			nd := int64(1 + r.Intn(int(c.P)))
			root, _ := new(big.Int).SetString(gen.Digits(r, nd), 10)
			pw := new(big.Int).Exp(root, big.NewInt(k), nil)
			re := c.Emin - nd + 1 + r.Range(-c.P, 2) // exponent of the root
			if re*k >= gen.MinExp+10 {
				x = dec.D{Form: dec.Finite, Neg: x.Neg && op == "cbrt", C: pw, E: re * k}
			}
		}
	case "exp":
		if c.P > 20 {
			c.P = 20
		}
		x = smallOperand(r, c)
		if r.Chance(1, 6) {
			// arguments beyond any representable result (Exp decides these
			// without iterating): 23001, -1E+5, 7E+40 ...
			x = gen.WithAdj(r.Bool(), big.NewInt(r.Range(1, 99999)), r.Range(4, 45))
		}
	case "ln", "log10":
		if c.P > 20 {
			c.P = 20
		}
		x = smallOperand(r, c)
		x.Neg = false
	default: // abs neg round reduce
		x = gen.Finite(r, c)
		if op == "reduce" {
			x = reduceOperand(r, c)
		}
	}
	if c.Emax < c.P {
		c.Emax = c.P
	}
	// specials now and then
	if r.Chance(1, 25) {
		x = gen.SpecialValue(r)
	}
	if y.C != nil && r.Chance(1, 25) {
		y = gen.SpecialValue(r)
	}
	return
}

// smallOperand draws a finite operand of moderate magnitude (|adj| <= 3).
func smallOperand(r *rng.R, c dec.Ctx) dec.D {
	cf := gen.Coeff(r, c.P)
	if dec.NumDigits(cf) > 2*c.P+5 {
		cf = new(big.Int).Mod(cf, dec.Pow10(c.P+2))
		if cf.Sign() == 0 {
			cf.SetInt64(7)
		}
	}
	return gen.WithAdj(r.Bool(), cf, r.Range(-3, 2))
}

func powExponent(r *rng.R) dec.D {
	switch r.Pick(40, 20, 20, 20) {
	case 0:
		return dec.FromInt(r.Range(-12, 12), 0)
	case 1:
		return dec.D{Form: dec.Finite, Neg: r.Bool(), C: big.NewInt(r.Range(1, 99)), E: -1}
	case 2:
		return dec.D{Form: dec.Finite, Neg: r.Bool(), C: big.NewInt(r.Range(1, 9)), E: r.Range(0, 1)}
	default:
		return dec.D{Form: dec.Finite, Neg: r.Bool(), C: big.NewInt(r.Range(1, 999)), E: -2}
	}
}

// modfOperand covers Modf's branches: |x| < 0.1, |x| < 1, integers, exponent > 0.
func modfOperand(r *rng.R, c dec.Ctx) dec.D {
	if r.Chance(1, 6) {
		// long coefficients with the decimal point inside the digit string and
		// more than 128 fraction digits (powers of ten beyond the lookup table)
		n := int64(130 + r.Intn(400))
		cf, _ := new(big.Int).SetString(gen.Digits(r, n), 10)
		return dec.D{Form: dec.Finite, Neg: r.Bool(), C: cf, E: -r.Range(100, n+5)}
	}
	x := integralOperand(r, c)
	if r.Chance(1, 6) {
		x.E = int64(1 + r.Intn(4))
	}
	if r.Chance(1, 3) {
		// coefficients above 64 / 128 bits so inline->heap transitions occur
		k := int64(15 + r.Intn(40))
		x.C = new(big.Int).Mul(x.C, dec.Pow10(k))
		x.C.Add(x.C, big.NewInt(int64(r.Intn(1000))))
		x.E -= k
	}
	return x
}

func randomTraps(r *rng.R) apd.Condition {
	switch r.Pick(40, 20, 40) {
	case 0:
		return 0
	case 1:
		return apd.DefaultTraps
	default:
		return apd.Condition(r.U64()) & br.AllFlags
	}
}

// isSystemOutcome recognises an exponent-limit failure without relying on
// the error text: system flags, or an error that carries no condition at all
// (trap errors always carry the trapped condition).
func isSystemOutcome(o Outcome) bool {
	return o.Flags&sysFlags != 0 || isSystemErr(o.Err) || (o.Err != nil && o.Flags == 0)
}

func isSystemErr(err error) bool {
	return err != nil && strings.Contains(err.Error(), "exponent out of range")
}

// compareOutcomes returns "" if b matches the baseline a as far as C05/C06
// demand for op.
func compareOutcomes(op string, a, b Outcome) string {
	if (a.Err != nil) != (b.Err != nil) {
		return fmt.Sprintf("error differs: %v vs %v", a.Err, b.Err)
	}
	if isSystemOutcome(a) || isSystemOutcome(b) {
		return ""
	}
	if a.Err != nil && isComposite(op) {
		// composite functions may stop before writing the destination
		return ""
	}
	if a.Flags != b.Flags {
		return fmt.Sprintf("Condition differs: %s vs %s", br.FlagNames(a.Flags), br.FlagNames(b.Flags))
	}
	if meaningful(a.Res) != meaningful(b.Res) {
		return fmt.Sprintf("result differs: %s vs %s", meaningful(a.Res), meaningful(b.Res))
	}
	return ""
}

func aliasCase(t *mon.T) {
	r := t.Rng
	op, c, x, y, aux := opOperands(r)
	traps := randomTraps(r)
	ctx := br.Context(c, traps)
	binary := y.C != nil
	base, _, _ := CallAliased(op, ctx, x, y, aux, AliasDistinct, nil)
	t.Eval()
	pats := []int{AliasDX}
	if binary {
		pats = append(pats, AliasDY)
	}
	for _, p := range pats {
		o, _, _ := CallAliased(op, ctx, x, y, aux, p, nil)
		t.Eval()
		t.Count("alias/" + aliasNames[p])
		t.Count("op/" + op)
		if why := compareOutcomes(op, base, o); why != "" {
			d := detail(op, c, x, y, o, why)
			d["alias"] = aliasNames[p]
			d["traps"] = br.FlagNames(traps)
			d["baseline"] = meaningful(base.Res) + " [" + br.FlagNames(base.Flags) + "]"
			d["aux"] = aux
			t.Fail("alias-changes-outcome", d)
		}
		if !dec.SameRepr(base.Res, x) {
			t.Nontrivial(fmt.Sprintf("%s|%d|%s|%s|%s", op, p, c, x.FullString(), y.FullString()))
		}
	}
	if binary {
		// x == y patterns need equal operands: baseline is the call on two
		// distinct copies of x.
		base2, _, _ := CallAliased(op, ctx, x, x.Clone(), aux, AliasDistinct, nil)
		for _, p := range []int{AliasXY, AliasDXY} {
			o, _, _ := CallAliased(op, ctx, x, x.Clone(), aux, p, nil)
			t.Eval()
			t.Count("alias/" + aliasNames[p])
			if why := compareOutcomes(op, base2, o); why != "" {
				d := detail(op, c, x, x, o, why)
				d["alias"] = aliasNames[p]
				d["traps"] = br.FlagNames(traps)
				d["baseline"] = meaningful(base2.Res) + " [" + br.FlagNames(base2.Flags) + "]"
				t.Fail("alias-changes-outcome", d)
			}
			t.Nontrivial(fmt.Sprintf("%s|%d|%s|%s", op, p, c, x.FullString()))
		}
	}
	if t.WantSample() {
		t.Sample(map[string]interface{}{"op": op, "ctx": c.String(), "traps": br.FlagNames(traps), "x": x.String(), "y": fmt.Sprint(y),
			"baseline": base.Res.String(), "patterns": len(pats)})
	}
}

// decimalMethodAliasCase covers Decimal.Modf/Neg/Abs/Reduce/Set with the
// receiver as an argument.
func decimalMethodAliasCase(t *mon.T) {
	r := t.Rng
	c := gen.Context(r)
	x := modfOperand(r, c)
	if r.Chance(1, 4) {
		x = gen.Finite(r, c)
	}
	fail := func(what, why string, extra map[string]interface{}) {
		d := map[string]interface{}{"op": what, "x": x.FullString(), "why": why}
		for k, v := range extra {
			d[k] = v
		}
		t.Fail("alias-changes-outcome", d)
	}
	switch r.Intn(5) {
	case 0: // Modf
		var i0, f0 apd.Decimal
		br.ToApd(x).Modf(&i0, &f0)
		bi, bf := br.FromApd(&i0), br.FromApd(&f0)
		// integ == receiver
		d1 := br.ToApd(x)
		var f1 apd.Decimal
		d1.Modf(d1, &f1)
		// frac == receiver
		d2 := br.ToApd(x)
		var i2 apd.Decimal
		d2.Modf(&i2, d2)
		// nil variants
		var i3, f4 apd.Decimal
		br.ToApd(x).Modf(&i3, nil)
		br.ToApd(x).Modf(nil, &f4)
		// nil + alias
		d5 := br.ToApd(x)
		d5.Modf(d5, nil)
		d6 := br.ToApd(x)
		d6.Modf(nil, d6)
		t.EvalN(7)
		t.Count("method/modf")
		t.Nontrivial("modf|" + x.FullString())
		chk := func(name string, got *apd.Decimal, want dec.D) {
			if g := br.FromApd(got); !dec.SameRepr(g, want) {
				fail("Decimal.Modf", name+" differs from the all-distinct call", map[string]interface{}{"got": g.FullString(), "want": want.FullString()})
			}
		}
		chk("integ==receiver: integ", d1, bi)
		chk("integ==receiver: frac", &f1, bf)
		chk("frac==receiver: frac", d2, bf)
		chk("frac==receiver: integ", &i2, bi)
		chk("frac nil: integ", &i3, bi)
		chk("integ nil: frac", &f4, bf)
		chk("integ==receiver, frac nil", d5, bi)
		chk("frac==receiver, integ nil", d6, bf)
	case 1:
		var b apd.Decimal
		b.Neg(br.ToApd(x))
		d := br.ToApd(x)
		d.Neg(d)
		t.EvalN(2)
		t.Count("method/neg")
		if !dec.SameRepr(br.FromApd(&b), br.FromApd(d)) {
			fail("Decimal.Neg", "d.Neg(d) differs", nil)
		}
	case 2:
		var b apd.Decimal
		b.Abs(br.ToApd(x))
		d := br.ToApd(x)
		d.Abs(d)
		t.EvalN(2)
		t.Count("method/abs")
		if !dec.SameRepr(br.FromApd(&b), br.FromApd(d)) {
			fail("Decimal.Abs", "d.Abs(d) differs", nil)
		}
	case 3:
		xx := reduceOperand(r, c)
		x = xx
		var b apd.Decimal
		_, n0 := b.Reduce(br.ToApd(xx))
		d := br.ToApd(xx)
		_, n1 := d.Reduce(d)
		t.EvalN(2)
		t.Count("method/reduce")
		t.Nontrivial("reduce|" + xx.FullString())
		if n0 != n1 || !dec.SameRepr(br.FromApd(&b), br.FromApd(d)) {
			fail("Decimal.Reduce", fmt.Sprintf("d.Reduce(d) differs: count %d vs %d, %s vs %s", n1, n0, br.FromApd(d), br.FromApd(&b)), nil)
		}
	case 4:
		d := br.ToApd(x)
		before := reprOf(d)
		d.Set(d)
		t.Eval()
		t.Count("method/set")
		if reprOf(d) != before {
			fail("Decimal.Set", "d.Set(d) changed d", nil)
		}
	}
}

// bigIntAliasCase checks BigInt methods under receiver/argument
// identification against the all-distinct call. A pattern is in scope only
// if math/big itself gives the same answer aliased and un-aliased.
func bigIntAliasCase(t *mon.T) {
	r := t.Rng
	xb, yb := bigValue(r), bigValue(r)
	if yb.Sign() == 0 {
		yb.SetInt64(3)
	}
	ops := []string{"Add", "Sub", "Mul", "Quo", "Rem", "Div", "Mod", "And", "Or", "Xor", "AndNot", "GCDpos", "QuoRem", "DivMod", "Neg", "Abs", "Not", "Lsh", "Rsh", "Sqrt", "Set", "Rand"}
	randSeed := int64(r.U64() >> 1)
	op := ops[r.Intn(len(ops))]
	sh := uint(r.Intn(200))
	// apply runs the method with z, x, y (and r2 for two-result methods)
	apply := func(z, x, y, r2 *apd.BigInt) {
		switch op {
		case "Add":
			z.Add(x, y)
		case "Sub":
			z.Sub(x, y)
		case "Mul":
			z.Mul(x, y)
		case "Quo":
			z.Quo(x, y)
		case "Rem":
			z.Rem(x, y)
		case "Div":
			z.Div(x, y)
		case "Mod":
			z.Mod(x, y)
		case "And":
			z.And(x, y)
		case "Or":
			z.Or(x, y)
		case "Xor":
			z.Xor(x, y)
		case "AndNot":
			z.AndNot(x, y)
		case "GCDpos":
			var ax, ay apd.BigInt
			ax.Abs(x)
			ay.Abs(y)
			z.GCD(nil, nil, &ax, &ay)
		case "QuoRem":
			z.QuoRem(x, y, r2)
		case "DivMod":
			z.DivMod(x, y, r2)
		case "Neg":
			z.Neg(x)
		case "Abs":
			z.Abs(x)
		case "Not":
			z.Not(x)
		case "Lsh":
			z.Lsh(x, sh)
		case "Rsh":
			z.Rsh(x, sh)
		case "Sqrt":
			var ax apd.BigInt
			ax.Abs(x)
			if z == x {
				z.Abs(z)
				z.Sqrt(z)
			} else {
				z.Sqrt(&ax)
			}
		case "Set":
			z.Set(x)
		case "Rand":
			// n.Rand(rnd, n) is supported by math/big; the source is re-seeded per call
			var ax apd.BigInt
			ax.Abs(x)
			if ax.Sign() == 0 {
				ax.SetInt64(7)
			}
			if z == x {
				// in place, so that z keeps the representation it arrived with
				z.Abs(z)
				if z.Sign() == 0 {
					z.SetInt64(7)
				}
				z.Rand(rand.New(rand.NewSource(randSeed)), z)
			} else {
				z.Rand(rand.New(rand.NewSource(randSeed)), &ax)
			}
		}
	}
	// one value in three arrives heap-backed although it may be small (through
	// in-place arithmetic that went beyond 128 bits and came back)
	mk := func(b *big.Int) *apd.BigInt {
		v := new(apd.BigInt).SetMathBigInt(b)
		if (b.BitLen()+int(randSeed))%3 == 0 {
			v.Lsh(v, 200)
			v.Rsh(v, 200)
		}
		return v
	}
	var z0, r0 apd.BigInt
	apply(&z0, mk(xb), mk(yb), &r0)
	wantZ, wantR := z0.String(), r0.String()
	t.Eval()
	t.Count("bigint/" + op)
	check := func(name string, z, r2 *apd.BigInt) {
		t.Eval()
		t.Count("bigint-alias/" + name)
		if z.String() != wantZ || (r2 != nil && r2.String() != wantR) {
			got := z.String()
			if r2 != nil {
				got += "," + r2.String()
			}
			t.Fail("alias-changes-outcome", map[string]interface{}{"op": "BigInt." + op, "alias": name, "x": xb.String(), "y": yb.String(), "shift": sh,
				"got": got, "want": wantZ + "," + wantR})
		}
	}
	twoRes := op == "QuoRem" || op == "DivMod"
	// z == x
	{
		z := mk(xb)
		var r2 apd.BigInt
		apply(z, z, mk(yb), &r2)
		if twoRes {
			check("z==x", z, &r2)
		} else {
			check("z==x", z, nil)
		}
	}
	// z == y
	{
		z := mk(yb)
		var r2 apd.BigInt
		apply(z, mk(xb), z, &r2)
		if twoRes {
			check("z==y", z, &r2)
		} else {
			check("z==y", z, nil)
		}
	}
	if twoRes {
		// r == x
		z := new(apd.BigInt)
		rr := mk(xb)
		apply(z, rr, mk(yb), rr)
		check("r==x", z, rr)
		// r == y is not supported by math/big (DivMod/QuoRem read y after writing r): out of scope
	}
	// x == y (value x for both)
	{
		if xb.Sign() != 0 {
			var zb, rb apd.BigInt
			apply(&zb, mk(xb), mk(xb), &rb)
			wantZ, wantR = zb.String(), rb.String()
			a := mk(xb)
			var z, r2 apd.BigInt
			apply(&z, a, a, &r2)
			if twoRes {
				check("x==y", &z, &r2)
			} else {
				check("x==y", &z, nil)
			}
			a2 := mk(xb)
			var r3 apd.BigInt
			apply(a2, a2, a2, &r3)
			if twoRes {
				check("z==x==y", a2, &r3)
			} else {
				check("z==x==y", a2, nil)
			}
		}
	}
	t.Nontrivial(fmt.Sprintf("big|%s|%s|%s", op, xb.String(), yb.String()))
}

// bigValue draws integers dense around the representation boundaries.
func bigValue(r *rng.R) *big.Int {
	var v *big.Int
	switch r.Pick(20, 25, 25, 20, 10) {
	case 0:
		v = big.NewInt(r.Range(-5, 5))
	case 1:
		k := []uint{32, 63, 64, 127, 128}[r.Intn(5)]
		v = new(big.Int).Lsh(bOne, k)
		v.Add(v, big.NewInt(r.Range(-2, 2)))
	case 2:
		v = new(big.Int).Rand(rngSource(r), new(big.Int).Lsh(bOne, uint(1+r.Intn(130))))
	case 3:
		v = new(big.Int).Rand(rngSource(r), new(big.Int).Lsh(bOne, uint(1+r.Intn(600))))
	default:
		v = new(big.Int).Rand(rngSource(r), new(big.Int).Lsh(bOne, uint(1+r.Intn(4000))))
	}
	if r.Bool() {
		v.Neg(v)
	}
	return v
}

func runC05(r *mon.Run) {
	r.Rule = "cases: every Context operation (22) on generated operands and contexts with random trap sets, run with all-distinct objects " +
		"and then with d==x, d==y, x==y, d==x==y; Decimal.Modf with integ/frac == receiver and nil outputs, Decimal.Neg/Abs/Reduce/Set with " +
		"d==x; BigInt methods with z==x, z==y, r==x, x==y, z==x==y. The aliased outcome (destination fields, Condition, error presence) must " +
		"equal the all-distinct outcome. distinct_nontrivial = distinct aliased cases whose result differs from the first operand."
	r.Assumptions = []string{"relational: apd is compared with apd on deep copies", "when a composite function returns an error it may stop before writing the destination, so destinations are compared only when the error is nil or the operation is single-rounding",
		"BigInt patterns that math/big itself does not support (QuoRem/DivMod with r==y) are out of scope"}
	r.Parallel("ctx-alias", r.N(150000, 15000000), aliasCase)
	r.Parallel("decimal-methods", r.N(80000, 6000000), decimalMethodAliasCase)
	r.Parallel("bigint", r.N(80000, 8000000), bigIntAliasCase)
	r.Serial("pinned", func(t *mon.T) {
		// fixed defects: Ceil(d,d) with d=0.05; Modf(integ==d) exponent of frac
		c := dec.Ctx{P: 5, Emin: -99, Emax: 99, Mode: "half_even"}
		x, _ := dec.Parse("5E-2")
		base, _, _ := CallAliased("ceil", br.Context(c, 0), x, dec.D{}, 0, AliasDistinct, nil)
		o, _, _ := CallAliased("ceil", br.Context(c, 0), x, dec.D{}, 0, AliasDX, nil)
		t.EvalN(2)
		if why := compareOutcomes("ceil", base, o); why != "" {
			t.Fail("alias-changes-outcome", detail("ceil", c, x, dec.D{}, o, why))
		}
		t.Count("pinned")
	})
	for _, p := range aliasNames[1:] {
		r.Require("alias/"+p, 1000)
	}
	for _, op := range allCtxOps {
		r.Require("op/"+op, 300)
	}
	for _, m := range []string{"method/modf", "method/neg", "method/abs", "method/reduce", "method/set", "bigint-alias/z==x", "bigint-alias/z==y", "bigint-alias/x==y", "bigint-alias/r==x"} {
		r.Require(m, 200)
	}
}
