package props

import (
	"bytes"
	"encoding/gob"
	"fmt"
	"math/big"
	"math/rand"
	"os"
	"runtime"
	"strings"

	"github.com/cockroachdb/apd/v3"

	"verif/internal/mon"
	"verif/internal/rng"
)

func init() {
	register("C16", runC16)
}

const bigSlots = 6

var traceBig = os.Getenv("VERIF_TRACE_BIGINT") != ""

type bigArgs struct {
	z, x, y, w int // slot indices
	n          uint
	i          int
	b          uint
	base       int
	i64a, i64b int64
	u64        uint64
	buf        []byte
	s          string
	seed       int64
}

type bigMethod struct {
	name string
	// dom reports whether the call is inside the domain math/big documents.
	dom func(m []*big.Int, a *bigArgs) bool
	apd func(p []*apd.BigInt, a *bigArgs) string
	big func(m []*big.Int, a *bigArgs) string
}

func always(m []*big.Int, a *bigArgs) bool   { return true }
func yNonZero(m []*big.Int, a *bigArgs) bool { return m[a.y].Sign() != 0 }

func nilness(p interface{}, isNil bool) string {
	if isNil {
		return "nil"
	}
	return "ok"
}

func tern(name string, dom func(m []*big.Int, a *bigArgs) bool, fa func(z, x, y *apd.BigInt) *apd.BigInt, fb func(z, x, y *big.Int) *big.Int) bigMethod {
	return bigMethod{name, dom,
		func(p []*apd.BigInt, a *bigArgs) string { r := fa(p[a.z], p[a.x], p[a.y]); return nilness(r, r == nil) },
		func(m []*big.Int, a *bigArgs) string { r := fb(m[a.z], m[a.x], m[a.y]); return nilness(r, r == nil) }}
}

func bin(name string, dom func(m []*big.Int, a *bigArgs) bool, fa func(z, x *apd.BigInt) *apd.BigInt, fb func(z, x *big.Int) *big.Int) bigMethod {
	return bigMethod{name, dom,
		func(p []*apd.BigInt, a *bigArgs) string { r := fa(p[a.z], p[a.x]); return nilness(r, r == nil) },
		func(m []*big.Int, a *bigArgs) string { r := fb(m[a.z], m[a.x]); return nilness(r, r == nil) }}
}

func query(name string, fa func(z *apd.BigInt, p []*apd.BigInt, a *bigArgs) string, fb func(z *big.Int, m []*big.Int, a *bigArgs) string) bigMethod {
	return bigMethod{name, always,
		func(p []*apd.BigInt, a *bigArgs) string { return fa(p[a.z], p, a) },
		func(m []*big.Int, a *bigArgs) string { return fb(m[a.z], m, a) }}
}

var smallPrimes = []int64{2, 3, 5, 7, 11, 13, 101, 65537, 2147483647}

var bigMethods = []bigMethod{
	tern("Add", always, (*apd.BigInt).Add, (*big.Int).Add),
	tern("Sub", always, (*apd.BigInt).Sub, (*big.Int).Sub),
	tern("Mul", always, (*apd.BigInt).Mul, (*big.Int).Mul),
	tern("Quo", yNonZero, (*apd.BigInt).Quo, (*big.Int).Quo),
	tern("Rem", yNonZero, (*apd.BigInt).Rem, (*big.Int).Rem),
	tern("Div", yNonZero, (*apd.BigInt).Div, (*big.Int).Div),
	tern("Mod", yNonZero, (*apd.BigInt).Mod, (*big.Int).Mod),
	tern("And", always, (*apd.BigInt).And, (*big.Int).And),
	tern("Or", always, (*apd.BigInt).Or, (*big.Int).Or),
	tern("Xor", always, (*apd.BigInt).Xor, (*big.Int).Xor),
	tern("AndNot", always, (*apd.BigInt).AndNot, (*big.Int).AndNot),
	bin("Neg", always, (*apd.BigInt).Neg, (*big.Int).Neg),
	bin("Abs", always, (*apd.BigInt).Abs, (*big.Int).Abs),
	bin("Not", always, (*apd.BigInt).Not, (*big.Int).Not),
	bin("Set", always, (*apd.BigInt).Set, (*big.Int).Set),
	bin("Sqrt", func(m []*big.Int, a *bigArgs) bool { return m[a.x].Sign() >= 0 }, (*apd.BigInt).Sqrt, (*big.Int).Sqrt),
	{"QuoRem", func(m []*big.Int, a *bigArgs) bool { return m[a.y].Sign() != 0 && a.z != a.w && a.w != a.y },
		func(p []*apd.BigInt, a *bigArgs) string { p[a.z].QuoRem(p[a.x], p[a.y], p[a.w]); return "" },
		func(m []*big.Int, a *bigArgs) string { m[a.z].QuoRem(m[a.x], m[a.y], m[a.w]); return "" }},
	{"DivMod", func(m []*big.Int, a *bigArgs) bool { return m[a.y].Sign() != 0 && a.z != a.w && a.w != a.y },
		func(p []*apd.BigInt, a *bigArgs) string { p[a.z].DivMod(p[a.x], p[a.y], p[a.w]); return "" },
		func(m []*big.Int, a *bigArgs) string { m[a.z].DivMod(m[a.x], m[a.y], m[a.w]); return "" }},
	{"Lsh", always,
		func(p []*apd.BigInt, a *bigArgs) string { p[a.z].Lsh(p[a.x], a.n); return "" },
		func(m []*big.Int, a *bigArgs) string { m[a.z].Lsh(m[a.x], a.n); return "" }},
	{"Rsh", always,
		func(p []*apd.BigInt, a *bigArgs) string { p[a.z].Rsh(p[a.x], a.n); return "" },
		func(m []*big.Int, a *bigArgs) string { m[a.z].Rsh(m[a.x], a.n); return "" }},
	{"SetBit", always,
		func(p []*apd.BigInt, a *bigArgs) string { p[a.z].SetBit(p[a.x], a.i, a.b); return "" },
		func(m []*big.Int, a *bigArgs) string { m[a.z].SetBit(m[a.x], a.i, a.b); return "" }},
	{"Exp", func(m []*big.Int, a *bigArgs) bool {
		if a.b == 1 && m[a.w].Sign() != 0 {
			return m[a.y].BitLen() < 200
		}
		// without a modulus the result has about bitlen(x)*y bits
		return m[a.y].Sign() <= 0 || (m[a.y].BitLen() <= 10 && int64(m[a.x].BitLen())*m[a.y].Int64() <= 20000)
	},
		func(p []*apd.BigInt, a *bigArgs) string {
			var mod *apd.BigInt
			if a.b == 1 {
				mod = p[a.w]
			}
			r := p[a.z].Exp(p[a.x], p[a.y], mod)
			return nilness(r, r == nil)
		},
		func(m []*big.Int, a *bigArgs) string {
			var mod *big.Int
			if a.b == 1 {
				mod = m[a.w]
			}
			r := m[a.z].Exp(m[a.x], m[a.y], mod)
			return nilness(r, r == nil)
		}},
	{"GCD", func(m []*big.Int, a *bigArgs) bool { return a.z != a.x && a.z != a.y && a.x != a.y },
		func(p []*apd.BigInt, a *bigArgs) string {
			if a.b == 1 {
				p[a.z].GCD(nil, nil, p[a.w], p[a.w])
			} else {
				var u, v apd.BigInt
				u.Set(p[a.w])
				v.Set(p[a.z])
				p[a.z].GCD(p[a.x], p[a.y], &u, &v)
			}
			return ""
		},
		func(m []*big.Int, a *bigArgs) string {
			if a.b == 1 {
				m[a.z].GCD(nil, nil, m[a.w], m[a.w])
			} else {
				u, v := new(big.Int).Set(m[a.w]), new(big.Int).Set(m[a.z])
				m[a.z].GCD(m[a.x], m[a.y], u, v)
			}
			return ""
		}},
	{"ModInverse", func(m []*big.Int, a *bigArgs) bool { return m[a.y].Sign() != 0 },
		func(p []*apd.BigInt, a *bigArgs) string {
			r := p[a.z].ModInverse(p[a.x], p[a.y])
			return nilness(r, r == nil)
		},
		func(m []*big.Int, a *bigArgs) string {
			r := m[a.z].ModInverse(m[a.x], m[a.y])
			return nilness(r, r == nil)
		}},
	{"ModSqrt", always,
		func(p []*apd.BigInt, a *bigArgs) string {
			pr := apd.NewBigInt(smallPrimes[a.i%len(smallPrimes)])
			r := p[a.z].ModSqrt(p[a.x], pr)
			return nilness(r, r == nil)
		},
		func(m []*big.Int, a *bigArgs) string {
			pr := big.NewInt(smallPrimes[a.i%len(smallPrimes)])
			r := m[a.z].ModSqrt(m[a.x], pr)
			return nilness(r, r == nil)
		}},
	{"Binomial", always,
		func(p []*apd.BigInt, a *bigArgs) string { p[a.z].Binomial(a.i64a%200, a.i64b%200); return "" },
		func(m []*big.Int, a *bigArgs) string { m[a.z].Binomial(a.i64a%200, a.i64b%200); return "" }},
	{"MulRange", always,
		func(p []*apd.BigInt, a *bigArgs) string { p[a.z].MulRange(a.i64a%60, a.i64a%60+a.i64b%40); return "" },
		func(m []*big.Int, a *bigArgs) string { m[a.z].MulRange(a.i64a%60, a.i64a%60+a.i64b%40); return "" }},
	{"SetInt64", always,
		func(p []*apd.BigInt, a *bigArgs) string { p[a.z].SetInt64(a.i64a); return "" },
		func(m []*big.Int, a *bigArgs) string { m[a.z].SetInt64(a.i64a); return "" }},
	{"SetUint64", always,
		func(p []*apd.BigInt, a *bigArgs) string { p[a.z].SetUint64(a.u64); return "" },
		func(m []*big.Int, a *bigArgs) string { m[a.z].SetUint64(a.u64); return "" }},
	{"SetBytes", always,
		func(p []*apd.BigInt, a *bigArgs) string { p[a.z].SetBytes(a.buf); return "" },
		func(m []*big.Int, a *bigArgs) string { m[a.z].SetBytes(a.buf); return "" }},
	{"SetBits", always,
		func(p []*apd.BigInt, a *bigArgs) string {
			w := make([]big.Word, 0, 4)
			for i := 0; i+8 <= len(a.buf) && len(w) < 5; i += 8 {
				w = append(w, big.Word(uint64(a.buf[i])|uint64(a.buf[i+1])<<8|uint64(a.buf[i+2])<<40))
			}
			p[a.z].SetBits(w)
			return ""
		},
		func(m []*big.Int, a *bigArgs) string {
			w := make([]big.Word, 0, 4)
			for i := 0; i+8 <= len(a.buf) && len(w) < 5; i += 8 {
				w = append(w, big.Word(uint64(a.buf[i])|uint64(a.buf[i+1])<<8|uint64(a.buf[i+2])<<40))
			}
			m[a.z].SetBits(w)
			return ""
		}},
	{"SetString", always,
		func(p []*apd.BigInt, a *bigArgs) string {
			_, ok := p[a.z].SetString(a.s, a.base)
			return fmt.Sprint(ok)
		},
		func(m []*big.Int, a *bigArgs) string {
			save := new(big.Int).Set(m[a.z])
			_, ok := m[a.z].SetString(a.s, a.base)
			if !ok {
				// math/big leaves z undefined on failure; apd leaves it unchanged or not - resynchronised by the caller
				m[a.z].Set(save)
			}
			return fmt.Sprint(ok)
		}},
	{"SetMathBigInt", always,
		func(p []*apd.BigInt, a *bigArgs) string { p[a.z].SetMathBigInt(p[a.x].MathBigInt()); return "" },
		func(m []*big.Int, a *bigArgs) string { m[a.z].Set(m[a.x]); return "" }},
	{"UnmarshalText", always,
		func(p []*apd.BigInt, a *bigArgs) string { return fmt.Sprint(p[a.z].UnmarshalText([]byte(a.s)) == nil) },
		func(m []*big.Int, a *bigArgs) string {
			save := new(big.Int).Set(m[a.z])
			ok := m[a.z].UnmarshalText([]byte(a.s)) == nil
			if !ok {
				m[a.z].Set(save)
			}
			return fmt.Sprint(ok)
		}},
	{"UnmarshalJSON", always,
		func(p []*apd.BigInt, a *bigArgs) string { return fmt.Sprint(p[a.z].UnmarshalJSON([]byte(a.s)) == nil) },
		func(m []*big.Int, a *bigArgs) string {
			save := new(big.Int).Set(m[a.z])
			ok := m[a.z].UnmarshalJSON([]byte(a.s)) == nil
			if !ok {
				m[a.z].Set(save)
			}
			return fmt.Sprint(ok)
		}},
	{"Gob", always,
		func(p []*apd.BigInt, a *bigArgs) string {
			b, err := p[a.x].GobEncode()
			if err != nil {
				return "err"
			}
			return fmt.Sprintf("%x %v", b, p[a.z].GobDecode(b) == nil)
		},
		func(m []*big.Int, a *bigArgs) string {
			b, err := m[a.x].GobEncode()
			if err != nil {
				return "err"
			}
			return fmt.Sprintf("%x %v", b, m[a.z].GobDecode(b) == nil)
		}},
	{"GobStream", always,
		func(p []*apd.BigInt, a *bigArgs) string {
			var buf bytes.Buffer
			if err := gob.NewEncoder(&buf).Encode(p[a.x]); err != nil {
				return "encerr"
			}
			return fmt.Sprint(gob.NewDecoder(&buf).Decode(p[a.z]) == nil)
		},
		func(m []*big.Int, a *bigArgs) string {
			var buf bytes.Buffer
			if err := gob.NewEncoder(&buf).Encode(m[a.x]); err != nil {
				return "encerr"
			}
			return fmt.Sprint(gob.NewDecoder(&buf).Decode(m[a.z]) == nil)
		}},
	{"Scan", always,
		func(p []*apd.BigInt, a *bigArgs) string {
			n, err := fmt.Sscan(a.s, p[a.z])
			return fmt.Sprint(n, err == nil)
		},
		func(m []*big.Int, a *bigArgs) string {
			save := new(big.Int).Set(m[a.z])
			n, err := fmt.Sscan(a.s, m[a.z])
			if err != nil {
				m[a.z].Set(save)
			}
			return fmt.Sprint(n, err == nil)
		}},
	{"Rand", func(m []*big.Int, a *bigArgs) bool { return m[a.x].Sign() > 0 },
		func(p []*apd.BigInt, a *bigArgs) string {
			p[a.z].Rand(rand.New(rand.NewSource(a.seed)), p[a.x])
			return ""
		},
		func(m []*big.Int, a *bigArgs) string {
			m[a.z].Rand(rand.New(rand.NewSource(a.seed)), m[a.x])
			return ""
		}},
	// queries
	query("Sign/BitLen/IsInt64/IsUint64",
		func(z *apd.BigInt, p []*apd.BigInt, a *bigArgs) string {
			s := fmt.Sprint(z.Sign(), z.BitLen(), z.IsInt64(), z.IsUint64(), z.TrailingZeroBits())
			if z.IsInt64() {
				s += fmt.Sprint(" i", z.Int64())
			}
			if z.IsUint64() {
				s += fmt.Sprint(" u", z.Uint64())
			}
			return s
		},
		func(z *big.Int, m []*big.Int, a *bigArgs) string {
			s := fmt.Sprint(z.Sign(), z.BitLen(), z.IsInt64(), z.IsUint64(), z.TrailingZeroBits())
			if z.IsInt64() {
				s += fmt.Sprint(" i", z.Int64())
			}
			if z.IsUint64() {
				s += fmt.Sprint(" u", z.Uint64())
			}
			return s
		}),
	query("Cmp/CmpAbs",
		func(z *apd.BigInt, p []*apd.BigInt, a *bigArgs) string {
			return fmt.Sprint(z.Cmp(p[a.x]), z.CmpAbs(p[a.x]), p[a.x].Cmp(z), p[a.x].CmpAbs(z))
		},
		func(z *big.Int, m []*big.Int, a *bigArgs) string {
			return fmt.Sprint(z.Cmp(m[a.x]), z.CmpAbs(m[a.x]), m[a.x].Cmp(z), m[a.x].CmpAbs(z))
		}),
	query("Bit",
		func(z *apd.BigInt, p []*apd.BigInt, a *bigArgs) string {
			return fmt.Sprint(z.Bit(0), z.Bit(a.i), z.Bit(a.i%130))
		},
		func(z *big.Int, m []*big.Int, a *bigArgs) string {
			return fmt.Sprint(z.Bit(0), z.Bit(a.i), z.Bit(a.i%130))
		}),
	query("Bytes/FillBytes/Bits",
		func(z *apd.BigInt, p []*apd.BigInt, a *bigArgs) string {
			n := (z.BitLen() + 7) / 8
			return fmt.Sprintf("%x %x %x", z.Bytes(), z.FillBytes(dirtyBuf(n+a.i%5)), z.Bits())
		},
		func(z *big.Int, m []*big.Int, a *bigArgs) string {
			n := (z.BitLen() + 7) / 8
			return fmt.Sprintf("%x %x %x", z.Bytes(), z.FillBytes(dirtyBuf(n+a.i%5)), z.Bits())
		}),
	query("String/Text/Append",
		func(z *apd.BigInt, p []*apd.BigInt, a *bigArgs) string {
			return z.String() + " " + z.Text(a.base) + " " + string(z.Append([]byte("x"), a.base)) + " " + z.Text(10)
		},
		func(z *big.Int, m []*big.Int, a *bigArgs) string {
			return z.String() + " " + z.Text(a.base) + " " + string(z.Append([]byte("x"), a.base)) + " " + z.Text(10)
		}),
	query("Marshal",
		func(z *apd.BigInt, p []*apd.BigInt, a *bigArgs) string {
			j, e1 := z.MarshalJSON()
			tx, e2 := z.MarshalText()
			return fmt.Sprintf("%s %v %s %v", j, e1, tx, e2)
		},
		func(z *big.Int, m []*big.Int, a *bigArgs) string {
			j, e1 := z.MarshalJSON()
			tx, e2 := z.MarshalText()
			return fmt.Sprintf("%s %v %s %v", j, e1, tx, e2)
		}),
	query("Format",
		func(z *apd.BigInt, p []*apd.BigInt, a *bigArgs) string { return fmt.Sprintf(a.s, z) },
		func(z *big.Int, m []*big.Int, a *bigArgs) string { return fmt.Sprintf(a.s, z) }),
	query("ProbablyPrime",
		func(z *apd.BigInt, p []*apd.BigInt, a *bigArgs) string {
			if z.BitLen() > 700 {
				return "skip"
			}
			return fmt.Sprint(z.ProbablyPrime(a.i % 4))
		},
		func(z *big.Int, m []*big.Int, a *bigArgs) string {
			if z.BitLen() > 700 {
				return "skip"
			}
			return fmt.Sprint(z.ProbablyPrime(a.i % 4))
		}),
	query("MathBigInt",
		func(z *apd.BigInt, p []*apd.BigInt, a *bigArgs) string { return z.MathBigInt().String() },
		func(z *big.Int, m []*big.Int, a *bigArgs) string { return z.String() }),
}

var bigFormats = []string{"%d", "%x", "%X", "%o", "%b", "%s", "%v", "%+d", "%08d", "%-12d|", "%#x", "% d", "%20x", "%q"}

func genBigArgs(r *rng.R, name string) *bigArgs {
	a := &bigArgs{z: r.Intn(bigSlots), x: r.Intn(bigSlots), y: r.Intn(bigSlots), w: r.Intn(bigSlots)}
	a.n = uint([]int{0, 1, 31, 32, 63, 64, 65, 127, 128, 129, 200}[r.Intn(11)])
	if r.Bool() {
		a.n = uint(r.Intn(300))
	}
	a.i = r.Intn(260)
	a.b = uint(r.Intn(2))
	a.base = []int{2, 8, 10, 16, 36, 37, 62, 3}[r.Intn(8)]
	a.i64a, a.i64b = int64(r.U64()), int64(r.U64())
	switch r.Intn(4) {
	case 0:
		a.i64a = r.Range(-3, 3)
	case 1:
		a.i64a = []int64{-1 << 63, 1<<63 - 1, -1<<63 + 1, 1 << 62, 1 << 32, -(1 << 32)}[r.Intn(6)]
	}
	if a.i64a < 0 && (name == "Binomial" || name == "MulRange") {
		a.i64a = -(a.i64a + 1)
	}
	if a.i64b < 0 {
		a.i64b = -(a.i64b + 1)
	}
	a.u64 = r.U64()
	if r.Chance(1, 3) {
		a.u64 = []uint64{0, 1, 1 << 63, 1<<64 - 1, 1 << 32}[r.Intn(5)]
	}
	a.buf = make([]byte, []int{0, 1, 8, 9, 16, 17, 24, 40, 70}[r.Intn(9)])
	r.Read(a.buf)
	if r.Chance(1, 4) {
		for i := 0; i < len(a.buf)/2; i++ {
			a.buf[i] = 0
		}
	}
	v := bigValue(r)
	switch name {
	case "Format":
		a.s = bigFormats[r.Intn(len(bigFormats))]
	case "SetString":
		a.s = v.Text(a.base)
		switch r.Intn(6) {
		case 0:
			a.s = "+" + a.s
		case 1:
			a.s = a.s + "z!"
		case 2:
			a.base = 0
			a.s = []string{"0x", "0b", "0o", ""}[r.Intn(4)] + v.Text(10)
		case 3:
			a.s = ""
		}
	case "UnmarshalJSON":
		a.s = v.String()
		if r.Chance(1, 5) {
			a.s = []string{"null", "\"12\"", "1e3", "", "-", "0x10"}[r.Intn(6)]
		}
	default:
		a.s = v.String()
		if r.Chance(1, 6) {
			a.s = []string{"", "-", "12a", " 7", "+5", "0x1F", "1_000"}[r.Intn(7)]
		}
	}
	a.seed = int64(r.U64())
	return a
}

type bigViolation struct {
	kind string
	why  string
}

// reprInvariant checks the representation invariants of one BigInt against
// its mirrored value.
func reprInvariant(p *apd.BigInt, m *big.Int) string {
	rp := p.VerifRepr()
	switch rp.Kind {
	case "inline", "inline-neg":
		mag := new(big.Int)
		for i := len(rp.Inline) - 1; i >= 0; i-- {
			mag.Lsh(mag, 64)
			mag.Or(mag, new(big.Int).SetUint64(uint64(rp.Inline[i])))
		}
		if mag.CmpAbs(m) != 0 {
			return fmt.Sprintf("inline words %x do not equal |value| %s", rp.Inline, m.String())
		}
		if rp.Kind == "inline-neg" && mag.Sign() == 0 {
			return "negative zero: inline zero with the negative sentinel"
		}
		if (rp.Kind == "inline-neg") != (m.Sign() < 0) {
			return "sign sentinel disagrees with the value"
		}
	case "heap":
		hv := new(big.Int).SetBits(append([]big.Word(nil), rp.HeapBits...))
		if rp.HeapNeg {
			hv.Neg(hv)
		}
		if hv.Cmp(m) != 0 {
			return "heap value differs from the mirrored value"
		}
	}
	return ""
}

// bigIntSequence runs one lock-step sequence of n BigInt method calls against
// math/big.Int and reports the first divergence.
func bigIntSequence(t *mon.T, r *rng.R, n int) {
	p := make([]*apd.BigInt, bigSlots)
	m := make([]*big.Int, bigSlots)
	for i := range p {
		v := bigValue(r)
		m[i] = v
		p[i] = new(apd.BigInt)
		switch r.Intn(3) {
		case 0:
			p[i].SetMathBigInt(v)
		case 1:
			p[i].SetString(v.String(), 10)
		default:
			p[i].SetBytes(new(big.Int).Abs(v).Bytes())
			if v.Sign() < 0 {
				p[i].Neg(p[i])
			}
		}
	}
	trace := []string{}
	var kept []*big.Int
	var keptWant []string
	for step := 0; step < n; step++ {
		bm := bigMethods[r.Intn(len(bigMethods))]
		a := genBigArgs(r, bm.name)
		if !bm.dom(m, a) {
			t.Skip("bigint-out-of-domain/" + bm.name)
			continue
		}
		desc := fmt.Sprintf("%s(z=%d,x=%d,y=%d,w=%d,n=%d,i=%d,b=%d,base=%d,s=%q)", bm.name, a.z, a.x, a.y, a.w, a.n, a.i, a.b, a.base, a.s)
		trace = append(trace, desc)
		if len(trace) > 14 {
			trace = trace[len(trace)-14:]
		}
		if traceBig {
			fmt.Fprintln(os.Stderr, "C16 step:", desc, "bitlens", m[a.z].BitLen(), m[a.x].BitLen(), m[a.y].BitLen(), m[a.w].BitLen(), "ysign", m[a.y].Sign())
		}
		before := make([]string, bigSlots)
		for i := range m {
			before[i] = m[i].String()
		}
		var rb, ra string
		var pb, pa interface{}
		func() {
			defer func() { pb = recover() }()
			rb = bm.big(m, a)
		}()
		if pb != nil {
			// math/big itself panicked: outside its domain after all; resynchronise
			t.Skip("bigint-mathbig-panic/" + bm.name)
			for i := range m {
				m[i], _ = new(big.Int).SetString(before[i], 10)
				p[i] = new(apd.BigInt).SetMathBigInt(m[i])
			}
			continue
		}
		// math/big can leave a stale neg flag on a zero (GCD cofactors); such a
		// value prints as 0 and has Sign 0 but compares below zero. The mirror is
		// the mathematical value, so normalise it.
		for i := range m {
			if m[i].Sign() == 0 {
				m[i].Abs(m[i])
			}
		}
		func() {
			defer func() { pa = recover() }()
			ra = bm.apd(p, a)
		}()
		t.Eval()
		t.Count("bigint/" + bm.name)
		fail := func(kind, why string) {
			vals := []string{}
			for i := range before {
				s := before[i]
				if len(s) > 80 {
					s = s[:40] + "..(" + fmt.Sprint(len(s)) + ")"
				}
				vals = append(vals, s)
			}
			t.Fail(kind, map[string]interface{}{"method": bm.name, "call": desc, "why": why, "slots_before": vals, "trace": trace})
		}
		if pa != nil {
			fail("bigint-panic", fmt.Sprintf("apd.BigInt panicked (%v) where math/big does not", pa))
			return
		}
		if ra != rb {
			fail("bigint-differs-from-mathbig", fmt.Sprintf("returned %q, math/big %q", ra, rb))
			return
		}
		if strings.Contains(rb, "false") {
			// a failed parse/decode leaves the receiver undefined in math/big (and
			// in apd): resynchronise that slot on both sides
			p[a.z] = new(apd.BigInt).SetMathBigInt(m[a.z])
			t.Count("bigint-failed-parse-resync")
		}
		ptrs := map[uintptr]int{}
		for i := range p {
			if p[i].String() != m[i].String() || p[i].Sign() != m[i].Sign() || p[i].BitLen() != m[i].BitLen() {
				fail("bigint-differs-from-mathbig", fmt.Sprintf("slot %d is %s (sign %d, bitlen %d), math/big has %s (sign %d, bitlen %d)", i,
					abbrevS(p[i].String()), p[i].Sign(), p[i].BitLen(), abbrevS(m[i].String()), m[i].Sign(), m[i].BitLen()))
				return
			}
			if p[i].Cmp(apd.NewBigInt(0)) != m[i].Sign() {
				fail("bigint-differs-from-mathbig", fmt.Sprintf("slot %d: Cmp with 0 is %d, sign is %d", i, p[i].Cmp(apd.NewBigInt(0)), m[i].Sign()))
				return
			}
			if why := reprInvariant(p[i], m[i]); why != "" {
				fail("bigint-representation", fmt.Sprintf("slot %d: %s", i, why))
				return
			}
			rp := p[i].VerifRepr()
			if rp.Kind == "heap" {
				if j, dup := ptrs[rp.HeapPtr]; dup && bm.name != "SetBits" {
					fail("bigint-representation", fmt.Sprintf("slots %d and %d share one heap big.Int", j, i))
					return
				}
				ptrs[rp.HeapPtr] = i
				t.Count("bigint-repr/heap")
			} else {
				t.Count("bigint-repr/" + rp.Kind)
			}
		}
		// keep the pool bounded: a slot that grew beyond 8000 bits is reset on both sides
		for i := range m {
			if m[i].BitLen() > 8000 {
				v := bigValue(r)
				m[i] = v
				p[i] = new(apd.BigInt).SetMathBigInt(v)
				t.Count("bigint-slot-reset")
			}
		}
		// values obtained through MathBigInt must stay stable after later
		// mutations, stack growth and garbage collection
		if r.Chance(1, 6) {
			k := r.Intn(bigSlots)
			kept = append(kept, p[k].MathBigInt())
			keptWant = append(keptWant, m[k].String())
		}
		if r.Chance(1, 40) {
			runtime.GC()
		}
		if before[a.z] != m[a.z].String() {
			t.Nontrivial(fmt.Sprintf("%s|%s|%s", bm.name, abbrevS(before[a.x]), abbrevS(before[a.y])))
		}
	}
	if t.WantSample() {
		final := []string{}
		for i := range m {
			final = append(final, abbrevS(m[i].String()))
		}
		t.Sample(map[string]interface{}{"sequence_length": n, "last_calls": trace, "final_pool": final, "mathbigint_values_held_for_stability_check": len(kept)})
	}
	growStack(40 + r.Intn(200))
	for i := range kept {
		if kept[i].String() != keptWant[i] {
			t.Fail("bigint-leaked-alias", map[string]interface{}{"why": "a value returned by MathBigInt changed after the receiver was mutated", "want": abbrevS(keptWant[i]), "got": abbrevS(kept[i].String()), "trace": trace})
			return
		}
	}
}

func abbrevS(s string) string {
	if len(s) > 70 {
		return s[:30] + "..(" + fmt.Sprint(len(s)) + " chars).." + s[len(s)-20:]
	}
	return s
}

//go:noinline
func growStack(n int) int {
	var pad [256]byte
	pad[n%256] = byte(n)
	if n <= 0 {
		return int(pad[0])
	}
	return growStack(n-1) + int(pad[n%256])
}

// structuredCase compares single calls on operands constructed to sit on the
// numeric boundaries of each algorithm (not of the representation): perfect
// squares and their neighbours for Sqrt, exact multiples and off-by-one
// remainders for the division family, products at the word boundaries, powers
// and their neighbours for text conversion.
func structuredCase(t *mon.T) {
	r := t.Rng
	bits := []int{1, 8, 16, 24, 26, 27, 31, 32, 33, 52, 53, 63, 64, 65, 100, 127, 128, 129, 200, 600}[r.Intn(20)]
	k := new(big.Int).Rand(rngSource(r), new(big.Int).Lsh(bOne, uint(bits)))
	if r.Chance(2, 3) {
		k.SetBit(k, bits-1, 1)
	}
	if k.Sign() == 0 {
		k.SetInt64(1)
	}
	mk := func(b *big.Int) *apd.BigInt { return new(apd.BigInt).SetMathBigInt(b) }
	fail := func(name, why string, args ...*big.Int) {
		as := []string{}
		for _, a := range args {
			as = append(as, abbrevS(a.String()))
		}
		t.Fail("bigint-differs-from-mathbig", map[string]interface{}{"method": name, "args": as, "why": why})
	}
	switch r.Intn(6) {
	case 0: // Sqrt at k^2 + {-1, 0, 1}
		sq := new(big.Int).Mul(k, k)
		for _, d := range []int64{-1, 0, 1} {
			x := new(big.Int).Add(sq, big.NewInt(d))
			if x.Sign() < 0 {
				continue
			}
			want := new(big.Int).Sqrt(x)
			var z apd.BigInt
			z.Sqrt(mk(x))
			a := mk(x)
			a.Sqrt(a)
			t.EvalN(2)
			t.Count("structured/Sqrt")
			if z.String() != want.String() || a.String() != want.String() {
				fail("Sqrt", fmt.Sprintf("got %s / aliased %s, math/big %s", z.String(), a.String(), want.String()), x)
			}
		}
		t.Nontrivial("sqrt|" + k.String())
	case 1: // division family at q*y + {0, 1, y-1}, all sign combinations
		y := bigValue(r)
		if y.Sign() == 0 {
			y.SetInt64(7)
		}
		ay := new(big.Int).Abs(y)
		for _, rem := range []*big.Int{big.NewInt(0), big.NewInt(1), new(big.Int).Sub(ay, bOne)} {
			if rem.Cmp(ay) >= 0 {
				continue
			}
			x := new(big.Int).Add(new(big.Int).Mul(k, ay), rem)
			if r.Bool() {
				x.Neg(x)
			}
			wq, wr := new(big.Int).QuoRem(x, y, new(big.Int))
			wd, wm := new(big.Int).DivMod(x, y, new(big.Int))
			var q, rr, dd, mm, q2, r2, d2, m2 apd.BigInt
			q.QuoRem(mk(x), mk(y), &rr)
			dd.DivMod(mk(x), mk(y), &mm)
			q2.Quo(mk(x), mk(y))
			r2.Rem(mk(x), mk(y))
			d2.Div(mk(x), mk(y))
			m2.Mod(mk(x), mk(y))
			t.EvalN(6)
			t.Count("structured/Division")
			got := fmt.Sprint(q.String(), rr.String(), dd.String(), mm.String(), q2.String(), r2.String(), d2.String(), m2.String(), rr.Sign(), mm.Sign())
			want := fmt.Sprint(wq.String(), wr.String(), wd.String(), wm.String(), wq.String(), wr.String(), wd.String(), wm.String(), wr.Sign(), wm.Sign())
			if got != want {
				fail("QuoRem/DivMod/Quo/Rem/Div/Mod", "got "+abbrevS(got)+" want "+abbrevS(want), x, y)
			}
		}
		t.Nontrivial("div|" + k.String() + "|" + y.String())
	case 2: // products and sums at the word boundaries
		for _, d := range []int64{-1, 0, 1} {
			a := new(big.Int).Add(new(big.Int).Lsh(bOne, uint([]int{32, 63, 64, 127, 128}[r.Intn(5)])), big.NewInt(d))
			b := new(big.Int).Add(k, big.NewInt(d))
			if r.Bool() {
				a.Neg(a)
			}
			var p, s, u apd.BigInt
			p.Mul(mk(a), mk(b))
			s.Add(mk(a), mk(b))
			u.Sub(mk(a), mk(b))
			t.EvalN(3)
			t.Count("structured/MulAddSub")
			if p.String() != new(big.Int).Mul(a, b).String() || s.String() != new(big.Int).Add(a, b).String() || u.String() != new(big.Int).Sub(a, b).String() {
				fail("Mul/Add/Sub", "differs from math/big", a, b)
			}
		}
		t.Nontrivial("mas|" + k.String())
	case 3: // text conversion of base^n + {-1,0,1}
		base := []int{2, 8, 10, 16, 36, 62}[r.Intn(6)]
		n := int64(1 + r.Intn(80))
		pw := new(big.Int).Exp(big.NewInt(int64(base)), big.NewInt(n), nil)
		for _, d := range []int64{-1, 0, 1} {
			x := new(big.Int).Add(pw, big.NewInt(d))
			if r.Bool() {
				x.Neg(x)
			}
			a := mk(x)
			txt := a.Text(base)
			var back apd.BigInt
			_, ok := back.SetString(x.Text(base), base)
			t.EvalN(2)
			t.Count("structured/Text")
			if txt != x.Text(base) || !ok || back.String() != x.String() || string(a.Append(nil, base)) != x.Text(base) {
				fail("Text/SetString/Append", fmt.Sprintf("base %d", base), x)
			}
		}
		t.Nontrivial(fmt.Sprintf("txt|%d|%d", base, n))
	case 4: // Exp / ModInverse / GCD consistency on structured values
		m := bigValue(r)
		m.Abs(m)
		if m.Cmp(big.NewInt(2)) < 0 {
			m.SetInt64(97)
		}
		e := big.NewInt(int64(r.Intn(300)))
		want := new(big.Int).Exp(k, e, m)
		var z apd.BigInt
		z.Exp(mk(k), mk(e), mk(m))
		var g apd.BigInt
		g.GCD(nil, nil, mk(k), mk(m))
		wg := new(big.Int).GCD(nil, nil, k, m)
		t.EvalN(2)
		t.Count("structured/ExpGCD")
		if z.String() != want.String() || g.String() != wg.String() {
			fail("Exp/GCD", "differs from math/big", k, e, m)
		}
		t.Nontrivial("exp|" + k.String() + "|" + m.String())
	case 5: // primality: the composites every shortcut of a primality test is known to trip over
		var v *big.Int
		switch r.Intn(4) {
		case 0:
			v, _ = new(big.Int).SetString(pseudoprimes[r.Intn(len(pseudoprimes))], 10)
		case 1: // p*q with q = 2p-1 or p, q close (strong pseudoprime shapes), squares of primes
			pp := new(big.Int).Set(k)
			for !pp.ProbablyPrime(10) {
				pp.Add(pp, bOne)
			}
			q := new(big.Int).Sub(new(big.Int).Lsh(pp, 1), bOne)
			if r.Bool() {
				q.Set(pp)
			}
			v = new(big.Int).Mul(pp, q)
		case 2: // a prime near k, or its neighbour
			v = new(big.Int).Set(k)
			for !v.ProbablyPrime(10) {
				v.Add(v, bOne)
			}
			if r.Chance(1, 4) {
				v.Add(v, big.NewInt(2))
			}
		default:
			v = new(big.Int).Set(k)
		}
		if r.Chance(1, 8) {
			v.Neg(v)
		}
		a := mk(v)
		if r.Bool() { // the same value with a heap-backed history
			a.Lsh(a, 200)
			a.Rsh(a, 200)
		}
		for _, n := range []int{0, 1, 2, 20} {
			t.Eval()
			if got, want := a.ProbablyPrime(n), v.ProbablyPrime(n); got != want {
				fail("ProbablyPrime", fmt.Sprintf("n=%d: got %v, math/big says %v", n, got, want), v)
			}
		}
		t.Count("structured/Primality")
		t.Nontrivial("prime|" + v.String())
	}
}

// pseudoprimes: the smallest strong pseudoprimes to the first k prime bases
// (psi_1..psi_12), Carmichael numbers, base-2 Fermat and strong pseudoprimes,
// Lucas and strong Lucas pseudoprimes, and a few primes at the word boundaries.
var pseudoprimes = []string{
	"2047", "1373653", "25326001", "3215031751", "2152302898747", "3474749660383", "341550071728321", "3825123056546413051",
	"318665857834031151167461", "3317044064679887385961981",
	"561", "1105", "1729", "2465", "2821", "6601", "8911", "10585", "15841", "29341", "41041", "46657", "52633", "62745", "63973", "75361",
	"101101", "115921", "126217", "162401", "172081", "188461", "252601", "278545", "294409", "314821", "334153", "340561", "399001", "410041",
	"341", "645", "1387", "1905", "2701", "3277", "4033", "4369", "4371", "4681", "5461", "7957", "8321", "8481", "13747", "14491", "15709",
	"42799", "49141", "65281", "74665", "80581", "85489", "88357", "90751", "104653", "130561", "196093", "220729", "233017", "252601", "253241",
	"323", "377", "1159", "1829", "3827", "5459", "5777", "9071", "9179", "10877", "11419", "11663", "13919", "14839", "16109", "16211", "18407",
	"5459", "5777", "10877", "16109", "18971", "22499", "24569", "25199", "40309", "58519", "75077", "97439", "100127", "113573", "115639", "130139",
	"4759123141", "1122004669633", "4294967291", "4294967311", "4294967297", "18446744073709551557", "18446744073709551629", "18446744073709551617",
	"2147483647", "2305843009213693951", "618970019642690137449562111", "170141183460469231731687303715884105727",
	"9223372036854775783", "9223372036854775837", "340282366920938463463374607431768211297", "340282366920938463463374607431768211507",
	"1194649", "12327121", "3215031751", "118670087467", "307768373641", "315962312077", "354864744877", "457453568161", "528929554561",
}

// nilAndMalformedCase: the printing methods on a nil receiver and the decoders
// on malformed input, which math/big defines too (a nil *big.Int prints as
// "<nil>", marshals to "<nil>"/null/empty; a decoder that fails reports an
// error). The rendering, the error presence and - where math/big leaves the
// receiver defined - the value must agree.
func nilAndMalformedCase(t *mon.T) {
	r := t.Rng
	var an *apd.BigInt
	var bn *big.Int
	guard := func(f func() string) (out string) {
		defer func() {
			if p := recover(); p != nil {
				out = fmt.Sprint("PANIC: ", p)
			}
		}()
		return f()
	}
	cmp := func(what, a, b string) {
		t.Eval()
		if a != b {
			t.Fail("bigint-differs-from-mathbig", map[string]interface{}{"call": what, "apd": abbrevS(a), "mathbig": abbrevS(b)})
		}
	}
	base := 2 + r.Intn(61)
	verbs := []string{"%v", "%d", "%x", "%X", "%o", "%b", "%s", "%10d", "%-8x|", "%+d", "%#x", "%08d", "% d", "%q", "%e"}
	verb := verbs[r.Intn(len(verbs))]
	cmp("nil.String", guard(func() string { return an.String() }), guard(func() string { return bn.String() }))
	cmp("nil.Text", guard(func() string { return an.Text(base) }), guard(func() string { return bn.Text(base) }))
	cmp("nil.Append", guard(func() string { return string(an.Append([]byte("x"), base)) }), guard(func() string { return string(bn.Append([]byte("x"), base)) }))
	cmp("nil.Format "+verb, guard(func() string { return fmt.Sprintf(verb, an) }), guard(func() string { return fmt.Sprintf(verb, bn) }))
	cmp("nil.MarshalText", guard(func() string { b, e := an.MarshalText(); return fmt.Sprint(string(b), e) }), guard(func() string { b, e := bn.MarshalText(); return fmt.Sprint(string(b), e) }))
	cmp("nil.MarshalJSON", guard(func() string { b, e := an.MarshalJSON(); return fmt.Sprint(string(b), e) }), guard(func() string { b, e := bn.MarshalJSON(); return fmt.Sprint(string(b), e) }))
	cmp("nil.GobEncode", guard(func() string { b, e := an.GobEncode(); return fmt.Sprint(b, e) }), guard(func() string { b, e := bn.GobEncode(); return fmt.Sprint(b, e) }))
	// the same verbs on ordinary values
	v := bigValue(r)
	av := new(apd.BigInt).SetMathBigInt(v)
	cmp("Format "+verb, guard(func() string { return fmt.Sprintf(verb, av) }), guard(func() string { return fmt.Sprintf(verb, v) }))
	// decoders on malformed input: a valid encoding damaged in one place, or random bytes
	start := bigValue(r)
	mkA := func() *apd.BigInt { return new(apd.BigInt).SetMathBigInt(start) }
	mkB := func() *big.Int { return new(big.Int).Set(start) }
	damage := func(b []byte) []byte {
		b = append([]byte{}, b...)
		switch r.Intn(6) {
		case 0:
			if len(b) > 0 {
				b[r.Intn(len(b))] ^= byte(1 + r.Intn(255))
			}
		case 1:
			b = b[:r.Intn(len(b)+1)]
		case 2:
			b = append(b, byte(r.U64()))
		case 3:
			b = make([]byte, r.Intn(6))
			for i := range b {
				b[i] = byte(r.U64())
			}
		}
		return b
	}
	src := bigValue(r)
	gob, _ := src.GobEncode()
	gob = damage(gob)
	{
		a, b := mkA(), mkB()
		ea, eb := a.GobDecode(gob), b.GobDecode(gob)
		cmp("GobDecode(damaged) error", fmt.Sprint(ea != nil), fmt.Sprint(eb != nil))
		if ea == nil && eb == nil {
			cmp("GobDecode(damaged) value", a.String(), b.String())
		}
	}
	txt := damage([]byte(src.Text(10)))
	{
		a, b := mkA(), mkB()
		ea, eb := a.UnmarshalText(txt), b.UnmarshalText(txt)
		cmp("UnmarshalText(damaged) error", fmt.Sprint(ea != nil), fmt.Sprint(eb != nil))
		if ea == nil && eb == nil {
			cmp("UnmarshalText(damaged) value", a.String(), b.String())
		}
		a, b = mkA(), mkB()
		js := txt
		if r.Chance(1, 4) {
			js = [][]byte{[]byte("null"), []byte(""), []byte("\"12\""), []byte(" 7"), []byte("1e3"), []byte("0x10"), []byte("-"), []byte("+5")}[r.Intn(8)]
		}
		ea, eb = a.UnmarshalJSON(js), b.UnmarshalJSON(js)
		cmp("UnmarshalJSON(damaged) error", fmt.Sprint(ea != nil), fmt.Sprint(eb != nil))
		if ea == nil && eb == nil {
			cmp("UnmarshalJSON(damaged) value", a.String(), b.String())
		}
		a, b = mkA(), mkB()
		sb := 0
		if r.Bool() {
			sb = []int{2, 8, 10, 16, 36, 62, 1, 63, -1}[r.Intn(9)]
		}
		var oka, okb bool
		pa := guard(func() string { _, oka = a.SetString(string(txt), sb); return "" })
		pb := guard(func() string { _, okb = b.SetString(string(txt), sb); return "" })
		cmp("SetString(damaged) ok", fmt.Sprint(oka, pa != ""), fmt.Sprint(okb, pb != ""))
		if oka && okb {
			cmp("SetString(damaged) value", a.String(), b.String())
		}
	}
	t.Count("nil-and-malformed")
	t.Nontrivial(fmt.Sprintf("nm|%s|%x|%s", verb, gob, txt))
}

func runC16(r *mon.Run) {
	r.Rule = "lock-step model-based monitor: pools of 6 apd.BigInt slots mirrored by math/big.Int; sequences of 30-200 calls drawn from " +
		fmt.Sprint(len(bigMethods)) + " method groups (arithmetic, bitwise, shifts, Exp/GCD/ModInverse/ModSqrt/Sqrt/Binomial/MulRange, Set*, text/JSON/Gob/Scan/Format, " +
		"Rand with mirrored sources, ProbablyPrime, queries); receiver and arguments are drawn from the same pool, so every aliasing pattern " +
		"math/big supports occurs; values dense around 0, +/-1, 2^32, 2^63, 2^64, 2^127, 2^128 and random up to 4000 bits. After every call all " +
		"slots are compared (text, Sign, BitLen, Cmp with 0) and the representation invariants are asserted through the VerifRepr hook (no " +
		"negative zero, inline words equal |value|, no shared heap big.Int); sequences run in fresh goroutines with deep recursion and GC " +
		"cycles, and values obtained through MathBigInt must stay stable. A second family makes single calls on operands built on the " +
		"numeric boundaries of each algorithm (k^2 and its neighbours for Sqrt with k of 1..600 bits, q*y+{0,1,y-1} for the division " +
		"family, products at the word boundaries, base^n and its neighbours for text conversion, and for ProbablyPrime the classical pseudoprimes - strong pseudoprimes to the first prime bases, Carmichael numbers, Fermat and Lucas pseudoprimes, products p(2p-1) and p^2, primes at the word boundaries - in inline and heap-backed form); a third compares the printing methods on a nil receiver and the decoders (Gob, text, JSON, SetString) on damaged encodings. distinct_nontrivial = distinct (method, operand values) that changed a slot."
	r.Assumptions = []string{"math/big.Int is the specification", "calls outside math/big's documented domain (division by zero, negative Sqrt, QuoRem with r aliasing y or z) are skipped"}
	r.Parallel("sequences", r.N(8000, 1200000), func(t *mon.T) {
		done := make(chan struct{})
		go func() { // fresh goroutine: small stack that has to grow
			defer close(done)
			defer func() {
				if p := recover(); p != nil {
					t.Fail("panic", map[string]interface{}{"panic": fmt.Sprint(p)})
				}
			}()
			growStack(t.Rng.Intn(30))
			bigIntSequence(t, t.Rng, 30+t.Rng.Intn(171))
		}()
		<-done
	})
	r.Parallel("structured", r.N(60000, 6000000), structuredCase)
	r.Serial("pinned", func(t *mon.T) {
		// fixed: negative zero from the uint64 fast paths
		z := new(apd.BigInt)
		chk := func(name string, v *apd.BigInt) {
			t.Eval()
			t.Count("pinned")
			if v.Sign() != 0 || !v.IsUint64() || v.Cmp(apd.NewBigInt(0)) != 0 || strings.HasPrefix(v.String(), "-") {
				t.Fail("bigint-differs-from-mathbig", map[string]interface{}{"call": name, "why": "zero result is negative"})
			}
		}
		chk("Mul(0,-5)", z.Mul(apd.NewBigInt(0), apd.NewBigInt(-5)))
		chk("Quo(-1,5)", z.Quo(apd.NewBigInt(-1), apd.NewBigInt(5)))
		chk("Rem(-10,5)", z.Rem(apd.NewBigInt(-10), apd.NewBigInt(5)))
		chk("Neg(0)", z.Neg(apd.NewBigInt(0)))
		// fixed: GCD left a negative zero in a cofactor (inline and heap-backed receivers)
		var g, cx, cy apd.BigInt
		g.GCD(&cx, &cy, apd.NewBigInt(-4), apd.NewBigInt(2))
		chk("GCD(x,y,-4,2).x", &cx)
		var hx apd.BigInt
		hx.SetString("123456789012345678901234567890123456789012345678901234567890", 10)
		g.GCD(&hx, &cy, apd.NewBigInt(-4), apd.NewBigInt(2))
		chk("GCD(x heap,y,-4,2).x", &hx)
	})
	r.Parallel("nil-and-malformed", r.N(4000, 200000), nilAndMalformedCase)
	r.Require("nil-and-malformed", 1000)
	for _, bm := range bigMethods {
		r.Require("bigint/"+bm.name, 200)
	}
	for _, k := range []string{"structured/Sqrt", "structured/Division", "structured/MulAddSub", "structured/Text", "structured/ExpGCD", "structured/Primality"} {
		r.Require(k, 1000)
	}
	for _, k := range []string{"bigint-repr/heap", "bigint-repr/inline", "bigint-repr/inline-neg"} {
		r.Require(k, 1000)
	}
}

// dirtyBuf returns a buffer of n bytes that a caller has used before.
func dirtyBuf(n int) []byte {
	b := make([]byte, n)
	for i := range b {
		b[i] = 0xde - byte(i)
	}
	return b
}
