package props

import (
	"fmt"
	"math/big"
	"sync"

	"github.com/cockroachdb/apd/v3"

	"verif/internal/br"
	"verif/internal/dec"
	"verif/internal/gen"
	"verif/internal/mon"
	"verif/internal/rng"
)

// destPreState draws a previous content for a destination.
func destPreState(r *rng.R) (dec.D, string) {
	switch r.Intn(8) {
	case 0:
		return dec.Special(dec.NaN, r.Bool()), "NaN"
	case 1:
		return dec.Special(dec.SNaN, r.Bool()), "sNaN"
	case 2:
		return dec.Special(dec.Inf, r.Bool()), "Inf"
	case 3:
		return dec.Zero(true, -7), "-0E-7"
	case 4:
		c, _ := new(big.Int).SetString(gen.Digits(r, int64(60+r.Intn(400))), 10)
		return dec.D{Form: dec.Finite, Neg: r.Bool(), C: c, E: r.Range(-500, 500)}, "huge-heap"
	case 5:
		return dec.D{Form: dec.Finite, Neg: r.Bool(), C: big.NewInt(r.Range(1, 99999)), E: r.Range(-20, 20)}, "small-inline"
	case 6:
		c, _ := new(big.Int).SetString(gen.Digits(r, int64(20+r.Intn(19))), 10)
		return dec.D{Form: dec.Finite, Neg: r.Bool(), C: c, E: r.Range(-20, 20)}, "inline-128"
	default:
		// NaN with a payload-like coefficient and a stale exponent
		return dec.D{Form: dec.NaN, Neg: r.Bool(), C: big.NewInt(r.Range(1, 99999)), E: 33}, "NaN-with-payload"
	}
}

var sharedFP struct {
	sync.Mutex
	first  string
	items  int
	checks int64
}

func checkShared(t *mon.T, where string) {
	fp, n := apd.VerifSharedState()
	sharedFP.Lock()
	defer sharedFP.Unlock()
	sharedFP.checks++
	if sharedFP.first == "" {
		sharedFP.first, sharedFP.items = fp, n
		return
	}
	if fp != sharedFP.first {
		t.Fail("shared-state-modified", map[string]interface{}{"where": where, "why": "package-level constants/tables fingerprint changed", "before": sharedFP.first, "after": fp})
	}
}

func purityCase(t *mon.T) {
	r := t.Rng
	if t.Index%1500 == 0 {
		checkShared(t, fmt.Sprintf("%s[%d]", t.Family, t.Index))
	}
	op, c, x, y, aux := opOperands(r)
	traps := randomTraps(r)
	ctx := br.Context(c, traps)
	ctxCopy := *ctx
	binary := y.C != nil
	ax := br.ToApd(x)
	var ay *apd.Decimal
	if binary {
		ay = br.ToApd(y)
	}
	// operands arrive through different histories so heap-backed small
	// coefficients occur too
	if r.Chance(1, 3) {
		var big1 apd.BigInt
		big1.SetMathBigInt(new(big.Int).Lsh(bOne, 200))
		ax.Coeff.Add(&ax.Coeff, &big1)
		ax.Coeff.Sub(&ax.Coeff, &big1)
	}
	xr := reprOf(ax)
	yr := ""
	if binary {
		yr = reprOf(ay)
	}
	d0 := new(apd.Decimal)
	res0, err0 := callOn(op, ctx, d0, ax, ay, aux)
	base := Outcome{Res: br.FromApd(d0), Flags: res0, Err: err0, Raw: d0}
	t.Eval()
	t.Count("op/" + op)
	report := func(kind, why string, o Outcome, extra map[string]interface{}) {
		d := detail(op, c, x, y, o, why)
		d["traps"] = br.FlagNames(traps)
		d["aux"] = aux
		for k, v := range extra {
			d[k] = v
		}
		t.Fail(kind, d)
	}
	if got := reprOf(ax); got != xr {
		report("operand-modified", "first operand changed bit-for-bit", base, map[string]interface{}{"before": xr, "after": got})
	}
	if binary {
		if got := reprOf(ay); got != yr {
			report("operand-modified", "second operand changed bit-for-bit", base, map[string]interface{}{"before": yr, "after": got})
		}
	}
	if *ctx != ctxCopy {
		report("context-modified", "Context fields changed", base, nil)
	}
	for k := 0; k < 2; k++ {
		pre, name := destPreState(r)
		d := br.ToApd(pre)
		res, err := callOn(op, ctx, d, ax, ay, aux)
		o := Outcome{Res: br.FromApd(d), Flags: res, Err: err, Raw: d}
		t.Eval()
		t.Count("prestate/" + name)
		t.Nontrivial(fmt.Sprintf("%s|%s|%s|%s|%s|%d", op, name, c, x.FullString(), y.FullString(), aux))
		if why := compareOutcomes(op, base, o); why != "" {
			report("outcome-depends-on-destination", why, o, map[string]interface{}{"prestate": name, "baseline": meaningful(base.Res) + " [" + br.FlagNames(base.Flags) + "]"})
		}
		if got := reprOf(ax); got != xr {
			report("operand-modified", "first operand changed bit-for-bit", o, map[string]interface{}{"before": xr, "after": got})
		}
	}
	if t.WantSample() {
		t.Sample(map[string]interface{}{"op": op, "ctx": c.String(), "x": x.String(), "y": fmt.Sprint(y), "result": base.Res.String(), "prestates_tried": 2})
	}
}

// reuseCase: a short history on a fixed set of objects. Three operand objects
// and one destination are overwritten with new values between calls (as a
// program that recycles Decimals does); every call must give what the same
// call gives on freshly allocated objects. This is where state carried over
// from an earlier call - stale inline words, caches keyed by object identity,
// results that depend on an operand's previous content - becomes observable.
// sameObjectHistory: one operation, one Context and one operand object whose
// value is changed in place between calls (same sign, exponent and digit count,
// heap-backed coefficient). Every call must equal the call on fresh objects.
func sameObjectHistory(t *mon.T) {
	r := t.Rng
	ops := []string{"pow", "ln", "log10", "exp", "sqrt", "cbrt", "round", "mul", "quo", "add", "reduce", "quantize", "rtiv"}
	op := ops[r.Intn(len(ops))]
	c := gen.Context(r)
	if c.P > 20 {
		c.P = int64(1 + r.Intn(20))
		if c.Emax < c.P {
			c.Emax = c.P
		}
	}
	ctx := br.Context(c, 0)
	nd := int64(40 + r.Intn(30))
	e := -(nd - 2)
	if op == "exp" {
		e = -(nd - 1) - int64(r.Intn(3))
	}
	obj := new(apd.Decimal)
	yobj := new(apd.Decimal)
	dst := new(apd.Decimal)
	hist := []string{}
	for step := 0; step < 5; step++ {
		cf, _ := new(big.Int).SetString(gen.Digits(r, nd), 10)
		x := dec.D{Form: dec.Finite, C: cf, E: e}
		var y dec.D
		var ay *apd.Decimal
		switch op {
		case "pow":
			y = dec.D{Form: dec.Finite, C: big.NewInt(r.Range(1, 99)), E: -1 - int64(r.Intn(2))}
		case "mul", "quo", "add":
			y = dec.D{Form: dec.Finite, C: big.NewInt(r.Range(1, 99999)), E: r.Range(-3, 3)}
		}
		// in-place update of the same object: through arithmetic on its own
		// coefficient, the way a program accumulates into a Decimal
		if step == 0 {
			br.SetApd(obj, x)
		} else {
			delta := new(big.Int).Sub(x.C, obj.Coeff.MathBigInt())
			var db apd.BigInt
			db.SetMathBigInt(delta)
			obj.Coeff.Add(&obj.Coeff, &db)
		}
		if y.C != nil {
			br.SetApd(yobj, y)
			ay = yobj
		}
		hist = append(hist, fmt.Sprintf("%s(%s,%s)", op, x.String(), fmt.Sprint(y)))
		res, err := callOn(op, ctx, dst, obj, ay, 0)
		got := Outcome{Res: br.FromApd(dst), Flags: res, Err: err, Raw: dst}
		want, _, _ := CallAliased(op, ctx, x, y, 0, AliasDistinct, nil)
		t.EvalN(2)
		t.Count("history/" + op)
		if why := compareOutcomes(op, want, got); why != "" {
			d := detail(op, c, x, y, got, why)
			d["history"] = hist
			d["fresh_objects"] = meaningful(want.Res) + " [" + br.FlagNames(want.Flags) + "]"
			t.Fail("outcome-depends-on-history", d)
			return
		}
	}
	t.Nontrivial(fmt.Sprint(hist))
}

func reuseCase(t *mon.T) {
	r := t.Rng
	if r.Chance(1, 3) {
		sameObjectHistory(t)
		return
	}
	objs := []*apd.Decimal{new(apd.Decimal), new(apd.Decimal), new(apd.Decimal)}
	dst := new(apd.Decimal)
	hist := []string{}
	longOps := r.Chance(1, 3)
	for step := 0; step < 10; step++ {
		op, c, x, y, aux := opOperands(r)
		if longOps && x.Form == dec.Finite && x.C.Sign() != 0 {
			// heap-backed coefficients (>= 39 digits) that keep their sign and
			// exponent across the history: the in-place overwrite below then reuses
			// the operand's storage, which is what identity-keyed caches mistake
			// for "the same value"
			if op == "pow" || op == "exp" || op == "ln" || op == "log10" || op == "sqrt" || op == "cbrt" || op == "round" || op == "mul" || op == "quo" {
				cf, _ := new(big.Int).SetString(gen.Digits(r, int64(40+r.Intn(30))), 10)
				x = dec.D{Form: dec.Finite, Neg: false, C: cf, E: -38}
				if op == "pow" {
					y = dec.D{Form: dec.Finite, C: big.NewInt(r.Range(1, 99)), E: -1 - int64(r.Intn(2))}
				}
			}
		}
		traps := randomTraps(r)
		ctx := br.Context(c, traps)
		xi, yi := r.Intn(3), r.Intn(3)
		br.SetApd(objs[xi], x)
		var ay *apd.Decimal
		if y.C != nil {
			if yi == xi {
				y = x
			}
			br.SetApd(objs[yi], y)
			ay = objs[yi]
		}
		hist = append(hist, fmt.Sprintf("%s(%s,%s)", op, x.String(), fmt.Sprint(y)))
		res, err := callOn(op, ctx, dst, objs[xi], ay, aux)
		got := Outcome{Res: br.FromApd(dst), Flags: res, Err: err, Raw: dst}
		var want Outcome
		if y.C != nil && yi == xi {
			want, _, _ = CallAliased(op, ctx, x, x.Clone(), aux, AliasXY, nil)
		} else {
			want, _, _ = CallAliased(op, ctx, x, y, aux, AliasDistinct, nil)
		}
		t.EvalN(2)
		t.Count("reuse/" + op)
		if why := compareOutcomes(op, want, got); why != "" {
			d := detail(op, c, x, y, got, why)
			d["history"] = hist
			d["traps"] = br.FlagNames(traps)
			d["fresh_objects"] = meaningful(want.Res) + " [" + br.FlagNames(want.Flags) + "]"
			t.Fail("outcome-depends-on-history", d)
			return
		}
	}
	t.Nontrivial(fmt.Sprint(hist))
}

// isolationCase: values produced by copying APIs must not share storage with
// their source: mutate the copy in place and the source must stay bit-for-bit
// unchanged, and the other way round.
func isolationCase(t *mon.T) {
	r := t.Rng
	// heap-backed and inline sources
	var v *big.Int
	switch r.Intn(3) {
	case 0:
		v = new(big.Int).Rand(rngSource(r), new(big.Int).Lsh(bOne, uint(130+r.Intn(900))))
	case 1:
		v = new(big.Int).Rand(rngSource(r), new(big.Int).Lsh(bOne, uint(1+r.Intn(128))))
	default:
		v = bigValue(r)
		v.Abs(v)
	}
	if r.Chance(1, 4) {
		v.Neg(v)
	}
	src := new(apd.BigInt).SetMathBigInt(v)
	srcD := br.ToApd(dec.D{Form: dec.Finite, Neg: r.Bool(), C: new(big.Int).Abs(v), E: r.Range(-30, 30)})
	ctx := apd.BaseContext.WithPrecision(0)
	one := apd.New(1, 0)
	type pair struct {
		name      string
		a, b      func() string // renderings of the two sharers
		mutA, muB func()        // in-place mutations
	}
	bump := func(d *apd.Decimal) {
		// in-place slow-path arithmetic on the destination
		ctx.Add(d, d, one)
		ctx.Mul(d, d, d)
		d.Coeff.Lsh(&d.Coeff, 3)
	}
	check := func(name string, before string, after func() string, what string) {
		t.Eval()
		t.Count("isolation/" + name)
		if got := after(); got != before {
			t.Fail("copy-shares-storage", map[string]interface{}{"api": name, "why": what, "before": before, "after": got, "source_bits": v.BitLen()})
		}
	}
	switch r.Intn(7) {
	case 0: // NewWithBigInt
		nd := apd.NewWithBigInt(src, 3)
		nd2 := apd.NewWithBigInt(src, -2)
		b0, s0 := reprOf(nd2), src.String()
		bump(nd)
		check("NewWithBigInt", s0, src.String, "mutating the new Decimal changed the caller's BigInt")
		check("NewWithBigInt", b0, func() string { return reprOf(nd2) }, "mutating one Decimal changed a sibling built from the same BigInt")
		n0 := reprOf(nd)
		src.Add(src, src)
		src.Lsh(src, 7)
		check("NewWithBigInt", n0, func() string { return reprOf(nd) }, "mutating the caller's BigInt changed the Decimal")
	case 1: // Decimal.Set
		var c apd.Decimal
		c.Set(srcD)
		s0 := reprOf(srcD)
		bump(&c)
		check("Decimal.Set", s0, func() string { return reprOf(srcD) }, "mutating the copy changed the source")
		c0 := reprOf(&c)
		bump(srcD)
		check("Decimal.Set", c0, func() string { return reprOf(&c) }, "mutating the source changed the copy")
	case 2: // BigInt.Set / Abs / Neg
		var c apd.BigInt
		switch r.Intn(3) {
		case 0:
			c.Set(src)
		case 1:
			c.Abs(src)
		default:
			c.Neg(src)
		}
		s0 := src.String()
		c.Mul(&c, &c)
		c.Add(&c, apd.NewBigInt(1))
		check("BigInt.Set/Abs/Neg", s0, src.String, "mutating the copy changed the source")
		c0 := c.String()
		src.Lsh(src, 5)
		src.Add(src, src)
		check("BigInt.Set/Abs/Neg", c0, c.String, "mutating the source changed the copy")
	case 3: // MathBigInt / SetMathBigInt
		m := src.MathBigInt()
		s0 := src.String()
		m.Mul(m, m)
		m.Add(m, big.NewInt(1))
		check("MathBigInt", s0, src.String, "mutating the returned big.Int changed the BigInt")
		ext := new(big.Int).Set(v)
		var c apd.BigInt
		c.SetMathBigInt(ext)
		c0 := c.String()
		ext.Lsh(ext, 9)
		ext.Add(ext, big.NewInt(3))
		check("SetMathBigInt", c0, c.String, "mutating the argument changed the BigInt")
	case 4: // Abs/Neg/Reduce of a Decimal are copies too
		var c apd.Decimal
		switch r.Intn(3) {
		case 0:
			c.Abs(srcD)
		case 1:
			c.Neg(srcD)
		default:
			c.Reduce(srcD)
		}
		s0 := reprOf(srcD)
		bump(&c)
		check("Decimal.Abs/Neg/Reduce", s0, func() string { return reprOf(srcD) }, "mutating the result changed the operand")
	case 5: // Compose must not retain the coefficient buffer; Decompose must return a private one
		form, neg, coef, exp := srcD.Decompose(nil)
		var c apd.Decimal
		buf := append([]byte(nil), coef...)
		c.Compose(form, neg, buf, exp)
		c0 := reprOf(&c)
		for i := range buf {
			buf[i] ^= 0x5a
		}
		check("Compose", c0, func() string { return reprOf(&c) }, "Compose retained the caller's coefficient buffer")
		s0 := reprOf(srcD)
		for i := range coef {
			coef[i] ^= 0xa5
		}
		check("Decompose", s0, func() string { return reprOf(srcD) }, "Decompose returned the Decimal's own storage")
	case 6: // results of Context operations do not share storage with operands
		var d apd.Decimal
		op := []string{"round", "abs", "neg", "add", "reduce", "rtiv", "quantize"}[r.Intn(7)]
		callOn(op, ctx, &d, srcD, apd.New(0, srcD.Exponent), int64(srcD.Exponent))
		s0 := reprOf(srcD)
		bump(&d)
		check("Context."+op, s0, func() string { return reprOf(srcD) }, "mutating the result changed the operand")
	}
	t.Nontrivial(fmt.Sprintf("iso|%d|%d", v.BitLen(), t.Index%7))
}

// setterCase: non-Context operations that write a destination.
func setterCase(t *mon.T) {
	r := t.Rng
	c := gen.Context(r)
	x := gen.Any(r, c)
	pre, name := destPreState(r)
	fresh := new(apd.Decimal)
	dirty := br.ToApd(pre)
	ax := br.ToApd(x)
	xr := reprOf(ax)
	what := ""
	var extra string
	switch r.Intn(9) {
	case 0:
		what = "Decimal.Set"
		fresh.Set(ax)
		dirty.Set(ax)
	case 1:
		what = "Decimal.Neg"
		fresh.Neg(ax)
		dirty.Neg(ax)
	case 2:
		what = "Decimal.Abs"
		fresh.Abs(ax)
		dirty.Abs(ax)
	case 3:
		what = "Decimal.Reduce"
		_, n0 := fresh.Reduce(ax)
		_, n1 := dirty.Reduce(ax)
		if n0 != n1 {
			extra = fmt.Sprintf("count %d vs %d", n0, n1)
		}
	case 4:
		what = "SetString"
		s := ""
		if x.Form == dec.Finite {
			s = decimalString(r, x)
		} else {
			s = []string{"NaN", "-nan", "sNaN", "-sNaN123", "Inf", "-Infinity", "nan77"}[r.Intn(7)]
		}
		_, _, e0 := fresh.SetString(s)
		_, _, e1 := dirty.SetString(s)
		if (e0 != nil) != (e1 != nil) {
			extra = "error differs"
		}
		if e0 != nil {
			t.Skip("parse-error")
			return
		}
		what += " " + s
	case 5:
		what = "Context.SetString"
		if x.Form != dec.Finite {
			x = gen.Finite(r, c)
		}
		s := decimalString(r, x)
		ctx := br.Context(c, 0)
		_, f0, e0 := ctx.SetString(fresh, s)
		_, f1, e1 := ctx.SetString(dirty, s)
		if (e0 != nil) != (e1 != nil) || f0 != f1 {
			extra = "error or flags differ"
		}
		if e0 != nil {
			t.Skip("parse-error")
			return
		}
	case 6:
		what = "Compose"
		form, neg, coef, exp := ax.Decompose(nil)
		e0 := fresh.Compose(form, neg, coef, exp)
		e1 := dirty.Compose(form, neg, coef, exp)
		if (e0 != nil) != (e1 != nil) {
			extra = "error differs"
		}
	case 7:
		what = "SetInt64/SetFinite"
		v := int64(r.U64())
		e := int32(r.Range(-100, 100))
		fresh.SetFinite(v, e)
		dirty.SetFinite(v, e)
	case 8:
		what = "Modf"
		if x.Form != dec.Finite {
			x = modfOperand(r, c)
			ax = br.ToApd(x)
			xr = reprOf(ax)
		}
		pre2, _ := destPreState(r)
		f0, f1 := new(apd.Decimal), br.ToApd(pre2)
		ax.Modf(fresh, f0)
		ax.Modf(dirty, f1)
		if meaningful(br.FromApd(f0)) != meaningful(br.FromApd(f1)) {
			extra = fmt.Sprintf("frac differs: %s vs %s", br.FromApd(f0), br.FromApd(f1))
		}
	}
	t.EvalN(2)
	t.Count("setter/" + firstWord(what))
	t.Count("prestate/" + name)
	t.Nontrivial(what + "|" + name + "|" + x.FullString())
	a, b := br.FromApd(fresh), br.FromApd(dirty)
	if meaningful(a) != meaningful(b) || extra != "" {
		t.Fail("outcome-depends-on-destination", map[string]interface{}{"op": what, "x": x.FullString(), "prestate": name + " " + pre.FullString(),
			"fresh": meaningful(a), "dirty": meaningful(b), "why": "result differs between a fresh and a previously used destination " + extra})
	}
	if got := reprOf(ax); got != xr {
		t.Fail("operand-modified", map[string]interface{}{"op": what, "x": x.FullString(), "before": xr, "after": got, "why": "operand changed bit-for-bit"})
	}
}

func firstWord(s string) string {
	for i := 0; i < len(s); i++ {
		if s[i] == ' ' {
			return s[:i]
		}
	}
	return s
}

// canaries: a fixed list of calls evaluated at the start and again later.
func canaryOutcomes(seed int64) []string {
	out := make([]string, 0, 64)
	for i := int64(0); i < 64; i++ {
		r := rng.New(seed, "canary", i)
		op, c, x, y, aux := opOperands(r)
		o, _, _ := CallAliased(op, br.Context(c, 0), x, y, aux, AliasDistinct, nil)
		out = append(out, fmt.Sprintf("%s %s %s %s -> %s [%s] err=%v", op, c, x.FullString(), y.FullString(), meaningful(o.Res), br.FlagNames(o.Flags), o.Err != nil))
	}
	return out
}

func runC06(r *mon.Run) {
	r.Rule = "cases: every Context operation with random trap sets executed into a fresh destination and into two destinations that previously " +
		"held NaN/sNaN/Inf/-0E-7/a huge heap-backed coefficient/a small inline one/a NaN with payload; non-Context writers (Set, Neg, Abs, " +
		"Reduce, SetString, Context.SetString, Compose, SetFinite, Modf) likewise; operands and the Context are snapshotted bit-for-bit " +
		"(including the BigInt inline/heap representation through the VerifRepr hook) before and after each call; the package-level shared " +
		"state fingerprint (VerifSharedState hook: constants, lookup tables, BaseContext) is taken every 1500 cases and at the end; 64 canary " +
		"calls are evaluated at the start and re-evaluated after every family; a 'reuse' family replays 10-call histories on recycled " +
		"operand and destination objects and compares every call with the same call on fresh objects; an 'isolation' family mutates " +
		"copies (NewWithBigInt, Set, Abs, Neg, Reduce, MathBigInt, SetMathBigInt, Compose/Decompose buffers, results of Context " +
		"operations) in place and checks that their source is unchanged, and vice versa; a 'beyond-table' family calls Ln, Log10 and Pow twice " +
		"each at precisions at and beyond the last tier of the precision-indexed constant tables (1023...3032 digits), compares the two outcomes and " +
		"takes the shared-state fingerprint after each pair. distinct_nontrivial = distinct (op, operands, non-zero destination pre-state)."
	r.Assumptions = []string{"relational: apd compared with apd; meaningful fields per form (NaN: sign and payload; Infinity: sign; finite: all fields)"}
	sharedFP.first = ""
	sharedFP.checks = 0
	can0 := canaryOutcomes(r.Seed)
	recheck := func(when string) {
		r.Serial("canary-"+when, func(t *mon.T) {
			checkShared(t, when)
			now := canaryOutcomes(r.Seed)
			t.EvalN(int64(len(now)))
			t.Count("canary-reevaluations")
			for i := range now {
				if now[i] != can0[i] {
					t.Fail("canary-changed", map[string]interface{}{"when": when, "before": can0[i], "after": now[i], "why": "the same call gives a different answer later in the process"})
				}
			}
		})
	}
	recheck("start")
	r.Serial("pinned", func(t *mon.T) {
		// fixed: Floor into a destination that held NaN returned NaN (Modf never set Form)
		c := dec.Ctx{P: 5, Emin: -99, Emax: 99, Mode: "half_even"}
		x, _ := dec.Parse("15E-1")
		for _, op := range []string{"floor", "ceil"} {
			for _, pre := range []dec.D{dec.Special(dec.NaN, false), dec.Special(dec.Inf, true), dec.Special(dec.SNaN, true)} {
				pre := pre
				base, _, _ := CallAliased(op, br.Context(c, 0), x, dec.D{}, 0, AliasDistinct, nil)
				o, _, _ := CallAliased(op, br.Context(c, 0), x, dec.D{}, 0, AliasDistinct, &pre)
				t.EvalN(2)
				t.Count("pinned")
				if why := compareOutcomes(op, base, o); why != "" {
					t.Fail("outcome-depends-on-destination", detail(op, c, x, dec.D{}, o, why))
				}
			}
		}
		// fixed: Compose(NaN) kept the previous coefficient as payload
		dirty := br.ToApd(dec.FromInt(12345, 0))
		dirty.Compose(2, false, nil, 0)
		fresh := new(apd.Decimal)
		fresh.Compose(2, false, nil, 0)
		t.Count("pinned")
		if meaningful(br.FromApd(dirty)) != meaningful(br.FromApd(fresh)) {
			t.Fail("outcome-depends-on-destination", map[string]interface{}{"op": "Compose", "dirty": meaningful(br.FromApd(dirty)), "fresh": meaningful(br.FromApd(fresh))})
		}
		// fixed: Decimal.Reduce(0.000) read its count from the destination
		z, _ := dec.Parse("0E-3")
		d2 := br.ToApd(dec.FromInt(12345000, 0))
		_, n := d2.Reduce(br.ToApd(z))
		t.Count("pinned")
		if n != 0 {
			t.Fail("outcome-depends-on-destination", map[string]interface{}{"op": "Decimal.Reduce", "x": "0E-3", "count": n, "why": "count read from the destination"})
		}
	})
	r.Parallel("purity", r.N(120000, 12000000), purityCase)
	r.Parallel("reuse", r.N(15000, 1500000), reuseCase)
	r.Parallel("isolation", r.N(60000, 4000000), isolationCase)
	recheck("after-purity")
	r.Parallel("setters", r.N(80000, 6000000), setterCase)
	recheck("after-setters")
	// long computations that use the shared constants most
	r.Parallel("heavy", r.N(3000, 300000), func(t *mon.T) {
		c := dec.Ctx{P: int64(20 + t.Rng.Intn(60)), Emin: -6143, Emax: 6144, Mode: "half_even"}
		op := []string{"ln", "log10", "exp", "pow", "cbrt", "sqrt"}[t.Rng.Intn(6)]
		x := smallOperand(t.Rng, c)
		x.Neg = false
		y := dec.D{}
		if op == "pow" {
			y = powExponent(t.Rng)
		}
		CallAliased(op, br.Context(c, 0), x, y, 0, AliasDistinct, nil)
		t.Eval()
		t.Count("heavy/" + op)
		if t.Index%200 == 0 {
			checkShared(t, "heavy")
		}
	})
	// precisions at and beyond the last tier of the precision-indexed constant
	// tables (ln 10 and 1/ln 10 are stored rounded to 1, 2, 4 … 2048 digits and
	// unrounded): what is handed out there is the shared constant itself
	beyond := []int64{1023, 1024, 1025, 2045, 2046, 2047, 2048, 2049, 2050, 2100, 2600, 3026, 3029, 3032}
	r.Parallel("beyond-table", int64(len(beyond)*3), func(t *mon.T) {
		P := beyond[int(t.Index)%len(beyond)]
		op := []string{"log10", "ln", "pow"}[int(t.Index)/len(beyond)%3]
		c := dec.Ctx{P: P, Emin: -100000, Emax: 100000, Mode: "half_even"}
		x := dec.D{Form: dec.Finite, C: big.NewInt(t.Rng.Range(101, 109)), E: -2}
		y := dec.D{}
		if op == "pow" {
			y = dec.D{Form: dec.Finite, C: big.NewInt(5), E: -1}
		}
		first, _, _ := CallAliased(op, br.Context(c, 0), x, y, 0, AliasDistinct, nil)
		second, _, _ := CallAliased(op, br.Context(c, 0), x, y, 0, AliasDistinct, nil)
		t.EvalN(2)
		t.Count("beyond-table/" + op)
		if why := compareOutcomes(op, first, second); why != "" {
			t.Fail("outcome-depends-on-history", map[string]interface{}{"op": op, "precision": P, "x": x.FullString(), "why": "the same call repeated gives a different answer: " + why})
		}
		checkShared(t, "beyond-table")
	})
	recheck("after-beyond-table")
	recheck("end")
	r.Extra("shared_state_fingerprints_taken", sharedFP.checks)
	r.Extra("shared_state_items", sharedFP.items)
	for _, op := range allCtxOps {
		r.Require("op/"+op, 300)
	}
	for _, p := range []string{"prestate/NaN", "prestate/sNaN", "prestate/Inf", "prestate/huge-heap", "prestate/small-inline", "prestate/NaN-with-payload", "canary-reevaluations"} {
		r.Require(p, 4)
	}
}
