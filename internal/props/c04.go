package props

import (
	"bytes"
	"encoding/json"
	"fmt"
	"math"
	"math/big"
	"strings"
	"time"

	"github.com/cockroachdb/apd/v3"

	"verif/internal/br"
	"verif/internal/dec"
	"verif/internal/gen"
	"verif/internal/mon"
	"verif/internal/rng"
)

func init() {
	register("C04", runC04)
}

// hostileContext draws any well-formed context including Precision 0, any
// trap set and arbitrary rounding names.
func hostileContext(r *rng.R) dec.Ctx {
	c := gen.Context(r)
	switch r.Pick(70, 15, 10, 5) {
	case 0:
	case 1:
		c.P = 0
	case 2:
		c.Emin, c.Emax = gen.MinExp, gen.MaxExp
	case 3:
		c.P = 0
		c.Emin, c.Emax = gen.MinExp, gen.MaxExp
	}
	return c
}

// hostileDecimal draws any well-formed decimal: specials, signed zeros,
// moderate values and (if extreme) exponents at the package limits.
func hostileDecimal(r *rng.R, c dec.Ctx, extreme bool) dec.D {
	if extreme {
		cf := gen.Coeff(r, c.P+1)
		if dec.NumDigits(cf) > 50 {
			cf = big.NewInt(r.Range(1, 999999))
		}
		nd := dec.NumDigits(cf)
		switch r.Intn(4) {
		case 0:
			return dec.D{Form: dec.Finite, Neg: r.Bool(), C: cf, E: gen.MaxExp - nd + 1 - int64(r.Intn(3))}
		case 1:
			return dec.D{Form: dec.Finite, Neg: r.Bool(), C: cf, E: gen.MinExp + int64(r.Intn(3))}
		case 2:
			return dec.Zero(r.Bool(), []int64{gen.MaxExp, gen.MinExp}[r.Intn(2)])
		default:
			return dec.D{Form: dec.Finite, Neg: r.Bool(), C: cf, E: r.Range(-30000, 30000)}
		}
	}
	switch r.Pick(60, 15, 15, 10) {
	case 0:
		return gen.Finite(r, c)
	case 1:
		return gen.SpecialValue(r)
	case 2:
		return gen.Zero(r)
	default:
		return edSmall(r)
	}
}

// numericString draws strings for the parsers: grammatical sentences,
// single-byte mutations of them, fragment concatenations and random bytes.
func numericString(r *rng.R) string {
	if r.Chance(1, 8000) {
		return giantString(r)
	}
	g := grammarSentence(r)
	switch r.Pick(35, 40, 10, 15) {
	case 0:
		return g
	case 1:
		return mutate(r, g)
	case 2:
		return g + grammarSentence(r)
	default:
		n := r.Intn(12)
		b := make([]byte, n)
		for i := range b {
			if r.Chance(3, 4) {
				const alpha = "0123456789+-.eEnNaAsSiIfFtTyY_ x"
				b[i] = alpha[r.Intn(len(alpha))]
			} else {
				b[i] = byte(r.U64())
			}
		}
		return string(b)
	}
}

func grammarSentence(r *rng.R) string {
	var sb strings.Builder
	switch r.Intn(3) {
	case 0:
		sb.WriteByte('-')
	case 1:
		if r.Chance(1, 3) {
			sb.WriteByte('+')
		}
	}
	caseMix := func(s string) string {
		b := []byte(s)
		for i := range b {
			if r.Bool() && b[i] >= 'a' && b[i] <= 'z' {
				b[i] -= 32
			}
		}
		return string(b)
	}
	switch r.Pick(70, 10, 20) {
	case 1:
		sb.WriteString(caseMix([]string{"inf", "infinity"}[r.Intn(2)]))
	case 2:
		sb.WriteString(caseMix([]string{"nan", "snan"}[r.Intn(2)]))
		if r.Bool() {
			sb.WriteString(gen.Digits(r, int64(1+r.Intn(25))))
		}
	default:
		digits := func() string {
			n := int64(1 + r.Intn(6))
			if r.Chance(1, 20) {
				n = int64(20 + r.Intn(200))
			}
			s := gen.Digits(r, n)
			if r.Chance(1, 5) {
				s = "00" + s
			}
			return s
		}
		if r.Chance(1, 25) {
			// a written exponent beyond the limit that the position of the point
			// brings back into range (0.001E+100002 = 1E+99999), or just fails to
			k := 1 + r.Intn(12)
			frac := gen.Digits(r, int64(k))
			e := int64(100000+k) - int64(r.Intn(3)) - int64(len(strings.TrimLeft(frac, "0"))) + 1
			if r.Bool() {
				fmt.Fprintf(&sb, "0.%sE+%d", frac, e)
			} else {
				ip := gen.Digits(r, int64(k))
				fmt.Fprintf(&sb, "%sE-%d", ip, int64(100000+k)-int64(r.Intn(3)))
			}
			return sb.String()
		}
		switch r.Intn(4) {
		case 0:
			sb.WriteString(digits())
		case 1:
			sb.WriteString(digits() + "." + digits())
		case 2:
			sb.WriteString(digits() + ".")
		case 3:
			sb.WriteString("." + digits())
		}
		if r.Bool() {
			sb.WriteByte("eE"[r.Intn(2)])
			switch r.Intn(3) {
			case 0:
				sb.WriteByte('-')
			case 1:
				sb.WriteByte('+')
			}
			switch r.Pick(64, 15, 10, 5, 6) {
			case 0:
				fmt.Fprintf(&sb, "%d", r.Intn(400))
			case 1:
				fmt.Fprintf(&sb, "%d", r.Range(99990, 100010))
			case 2:
				fmt.Fprintf(&sb, "%05d", r.Intn(99999))
			case 3:
				sb.WriteString(gen.Digits(r, int64(6+r.Intn(20))))
			default:
				// numerals that wrap to a small value in 32- or 64-bit arithmetic:
				// k*2^31, k*2^32, k*2^63, k*2^64 +/- up to 100010
				v := new(big.Int).Lsh(big.NewInt(r.Range(1, 5)), []uint{31, 32, 63, 64}[r.Intn(4)])
				v.Add(v, big.NewInt(r.Range(-100010, 100010)))
				if r.Chance(1, 3) {
					sb.WriteString("000")
				}
				sb.WriteString(v.String())
			}
		}
	}
	return sb.String()
}

var mutAlphabet = []byte("0123456789+-.eEnasifty_ x\x80\xc4\xb0")

func mutate(r *rng.R, s string) string {
	b := []byte(s)
	if len(b) == 0 {
		return "x"
	}
	i := r.Intn(len(b))
	c := mutAlphabet[r.Intn(len(mutAlphabet))]
	switch r.Intn(5) {
	case 0: // insert
		b = append(b[:i], append([]byte{c}, b[i:]...)...)
	case 1: // delete
		b = append(b[:i], b[i+1:]...)
	case 2: // replace
		b[i] = c
	case 3: // duplicate
		b = append(b[:i], append([]byte{b[i]}, b[i:]...)...)
	case 4: // swap
		if i+1 < len(b) {
			b[i], b[i+1] = b[i+1], b[i]
		}
	}
	return string(b)
}

// checkParsed asserts the structural invariant of a successfully parsed value.
func checkParsed(t *mon.T, what, s string, d *apd.Decimal) {
	if d == nil {
		t.Fail("parse-ill-formed", map[string]interface{}{"op": what, "s": s, "why": "nil Decimal with nil error"})
		return
	}
	why := ""
	if err := br.WellFormed(d); err != nil {
		why = err.Error()
	} else if d.Form == apd.Finite {
		nd := int64(len(d.Coeff.String()))
		if int64(d.Exponent) > gen.MaxExp || int64(d.Exponent) < gen.MinExp {
			why = fmt.Sprintf("exponent %d outside the package limits", d.Exponent)
		} else if adj := int64(d.Exponent) + nd - 1; d.Coeff.Sign() != 0 && (adj > gen.MaxExp || adj < gen.MinExp) {
			why = fmt.Sprintf("adjusted exponent %d outside the package limits", adj)
		}
	}
	if why != "" {
		t.Fail("parse-ill-formed", map[string]interface{}{"op": what, "s": s, "why": why, "got": br.FromApd(d).FullString()})
	}
}

type entryPoint struct {
	name string
	run  func(t *mon.T, r *rng.R, extreme bool)
}

var fmtVerbs = []string{"e", "E", "f", "F", "g", "G", "s", "v", "d", "x", "q", "+v", "#v", "T"}

func randomFormat(r *rng.R) string {
	var sb strings.Builder
	sb.WriteByte('%')
	for _, f := range "+- 0#" {
		if r.Chance(1, 4) {
			sb.WriteRune(f)
		}
	}
	if r.Bool() {
		fmt.Fprintf(&sb, "%d", r.Intn(40))
	}
	if r.Chance(1, 4) {
		fmt.Fprintf(&sb, ".%d", r.Intn(20))
	}
	sb.WriteString(fmtVerbs[r.Intn(len(fmtVerbs))])
	return sb.String()
}

var entryPoints = buildEntryPoints()

func buildEntryPoints() []entryPoint {
	var eps []entryPoint
	add := func(name string, fn func(t *mon.T, r *rng.R, extreme bool)) { eps = append(eps, entryPoint{name, fn}) }
	// Context operations
	for _, op := range allCtxOps {
		op := op
		add("Context."+op, func(t *mon.T, r *rng.R, extreme bool) {
			c := hostileContext(r)
			x := hostileDecimal(r, c, extreme)
			var y dec.D
			if isBinaryOp(op) {
				y = hostileDecimal(r, c, extreme && r.Bool())
				if op == "pow" && extreme {
					y = powExponent(r)
				}
			}
			if extreme && (op == "cbrt" || op == "exp" || op == "ln" || op == "log10" || op == "pow" || op == "sqrt") && c.P > 9 {
				c.P = int64(1 + r.Intn(9))
			}
			if !extreme && (op == "exp" || op == "ln" || op == "log10" || op == "pow" || op == "cbrt") {
				if c.P > 30 {
					c.P = 30
				}
				if x.Form == dec.Finite && abs64(x.Adj()) > 400 {
					x = smallOperand(r, c)
				}
				if op == "pow" && y.Form == dec.Finite && (abs64(y.Adj()) > 3 || y.Digits() > 12) {
					y = powExponent(r)
				}
			}
			traps := randomTraps(r)
			pattern := []int{AliasDistinct, AliasDX}[r.Intn(2)]
			aux := r.Range(-20, 20)
			if r.Chance(1, 10) {
				aux = []int64{math.MinInt32, math.MaxInt32, -100001, 100001, -100000, 100000, math.MinInt32 + 1, -1 << 20}[r.Intn(8)]
			}
			o, _, _ := CallAliased(op, br.Context(c, traps), x, y, aux, pattern, nil)
			if o.Flags&^br.AllFlags != 0 {
				t.Fail("flag-invariant", detail(op, c, x, y, o, "undocumented condition bits"))
			}
			if werr := br.WellFormed(o.Raw); werr != nil {
				t.Fail("ill-formed-result", detail(op, c, x, y, o, werr.Error()))
			}
		})
	}
	add("Context.NewFromString", func(t *mon.T, r *rng.R, extreme bool) {
		c := hostileContext(r)
		s := numericString(r)
		d, _, err := br.Context(c, randomTraps(r)).NewFromString(s)
		if err == nil {
			checkParsed(t, "Context.NewFromString", s, d)
		}
	})
	add("NewFromString", func(t *mon.T, r *rng.R, extreme bool) {
		s := numericString(r)
		d, _, err := apd.NewFromString(s)
		if err == nil {
			checkParsed(t, "NewFromString", s, d)
			// a parsed value must be usable by every other entry point
			_ = d.String()
			_ = apd.NumDigits(&d.Coeff)
			var z apd.Decimal
			apd.BaseContext.Add(&z, d, d)
		}
	})
	add("Decimal.SetString/UnmarshalText/Scan", func(t *mon.T, r *rng.R, extreme bool) {
		s := numericString(r)
		var d1, d2, d3, d4 apd.Decimal
		_, _, e1 := d1.SetString(s)
		e2 := d2.UnmarshalText([]byte(s))
		e3 := d3.Scan(s)
		e4 := d4.Scan([]byte(s))
		if e1 == nil {
			checkParsed(t, "Decimal.SetString", s, &d1)
		}
		if (e1 == nil) != (e2 == nil) || (e1 == nil) != (e3 == nil) || (e1 == nil) != (e4 == nil) {
			t.Fail("parsers-disagree", map[string]interface{}{"s": s, "SetString": fmt.Sprint(e1), "UnmarshalText": fmt.Sprint(e2), "ScanString": fmt.Sprint(e3), "ScanBytes": fmt.Sprint(e4)})
		}
		var nd apd.NullDecimal
		nd.Scan(s)
		nd.Scan(nil)
		nd.Value()
		d3.Scan(int64(r.U64()))
		d3.Scan(math.Float64frombits(r.U64()))
		d3.Scan(struct{}{})
		// every dynamic type a driver or a caller may hand over: whatever Scan
		// accepts must leave a well-formed value that the other entry points can use
		bv := bigValue(r)
		for _, src := range []interface{}{bv, *bv, new(big.Float).SetInt(bv), new(big.Rat).SetInt(bv), new(apd.BigInt).SetMathBigInt(bv), int(r.Range(-99, 99)), int32(r.Range(-99, 99)),
			int16(-7), int8(-7), uint(7), uint64(r.U64()), uint32(7), float32(-2.5), true, []byte(nil), "", (*big.Int)(nil), json.Number(bv.String()), []string{"1"}} {
			var ds apd.Decimal
			if err := ds.Scan(src); err == nil {
				if werr := br.WellFormed(&ds); werr != nil {
					t.Fail("ill-formed-result", map[string]interface{}{"op": fmt.Sprintf("Scan(%T)", src), "why": werr.Error()})
					continue
				}
				var out apd.Decimal
				c1 := apd.Context{Precision: 1, MaxExponent: 100000, MinExponent: -100000, Rounding: apd.RoundUp}
				c1.Round(&out, &ds)
				c1.Add(&out, &ds, &ds)
				_ = ds.String()
			}
		}
	})
	add("Decimal.Text/String/Append/Format", func(t *mon.T, r *rng.R, extreme bool) {
		c := hostileContext(r)
		x := hostileDecimal(r, c, extreme)
		if extreme && x.Form == dec.Finite && abs64(x.E) > 20000 {
			x.E = x.E % 20000 // 'f' output is proportional to the exponent; keep it bounded
		}
		d := br.ToApd(x)
		_ = d.String()
		for _, f := range []byte("eEfgGxz") {
			_ = d.Text(f)
			_ = d.Append(make([]byte, 0, r.Intn(8)), f)
		}
		_ = fmt.Sprintf(randomFormat(r), d)
		_ = fmt.Sprintf(randomFormat(r), *d)
		_, _ = d.MarshalText()
		var nilD *apd.Decimal
		_, _ = nilD.MarshalText()
		_, _ = d.Value()
		_ = d.Size()
		_ = d.Form.String()
		_ = apd.Form(int8(r.U64())).String()
	})
	add("Decimal.Cmp/CmpTotal/Sign/IsZero/NumDigits", func(t *mon.T, r *rng.R, extreme bool) {
		c := hostileContext(r)
		x, y := br.ToApd(hostileDecimal(r, c, extreme)), br.ToApd(hostileDecimal(r, c, false))
		if x.Form != apd.NaN && x.Form != apd.NaNSignaling && y.Form != apd.NaN && y.Form != apd.NaNSignaling {
			_ = x.Cmp(y)
		}
		_ = x.CmpTotal(y)
		_ = x.Sign()
		_ = x.IsZero()
		_ = x.NumDigits()
	})
	add("Decimal.Int64/Float64/Modf/Reduce/Set/Neg/Abs", func(t *mon.T, r *rng.R, extreme bool) {
		c := hostileContext(r)
		xd := hostileDecimal(r, c, extreme)
		if extreme && xd.Form == dec.Finite && abs64(xd.E) > 20000 {
			xd.E %= 20000
		}
		x := br.ToApd(xd)
		_, _ = x.Int64()
		_, _ = x.Float64()
		if x.Form == apd.Finite {
			var i, f apd.Decimal
			x.Modf(&i, &f)
			x.Modf(nil, &f)
			x.Modf(&i, nil)
			x.Modf(nil, nil)
		}
		var d apd.Decimal
		d.Reduce(x)
		d.Set(x)
		d.Neg(x)
		d.Abs(x)
	})
	add("Decimal.SetFloat64/SetInt64/SetFinite/New/NewWithBigInt", func(t *mon.T, r *rng.R, extreme bool) {
		var d apd.Decimal
		f := math.Float64frombits(r.U64())
		_, _ = d.SetFloat64(f)
		d.SetInt64(int64(r.U64()))
		d.SetFinite(int64(r.U64()), int32(r.Range(gen.MinExp, gen.MaxExp)))
		_ = apd.New(int64(r.U64()), int32(r.Range(gen.MinExp, gen.MaxExp)))
		b := new(apd.BigInt).SetMathBigInt(bigValue(r))
		nd := apd.NewWithBigInt(b, int32(r.Range(-100, 100)))
		if werr := br.WellFormed(nd); werr != nil {
			t.Fail("ill-formed-result", map[string]interface{}{"op": "NewWithBigInt", "why": werr.Error()})
		}
		_ = apd.NewBigInt(int64(r.U64()))
		_ = apd.NumDigits(b)
	})
	add("Decimal.Compose/Decompose", func(t *mon.T, r *rng.R, extreme bool) {
		c := hostileContext(r)
		x := br.ToApd(hostileDecimal(r, c, false))
		form, neg, coef, exp := x.Decompose(make([]byte, 0, r.Intn(40)))
		var d apd.Decimal
		_ = d.Compose(form, neg, coef, exp)
		_ = d.Compose(byte(r.Intn(5)), r.Bool(), []byte{byte(r.U64()), byte(r.U64())}, int32(r.Range(-9, 9)))
		_ = d.Compose(0, false, nil, 0)
	})
	add("Condition/Rounder/Context helpers", func(t *mon.T, r *rng.R, extreme bool) {
		cond := apd.Condition(r.U64()) & br.AllFlags
		_ = cond.String()
		_, _ = cond.GoError(apd.Condition(r.U64()) & br.AllFlags)
		_ = cond.Any()
		_ = cond.Inexact() || cond.Overflow() || cond.Underflow() || cond.Subnormal() || cond.Rounded() || cond.Clamped() ||
			cond.DivisionByZero() || cond.DivisionImpossible() || cond.DivisionUndefined() || cond.InvalidOperation() ||
			cond.SystemOverflow() || cond.SystemUnderflow()
		c := hostileContext(r)
		ctx := br.Context(c, randomTraps(r))
		_ = ctx.WithPrecision(uint32(r.Intn(50)))
		b := new(apd.BigInt).SetMathBigInt(new(big.Int).Abs(bigValue(r)))
		_ = ctx.Rounding.ShouldAddOne(b, r.Bool(), r.Intn(3)-1)
		x := br.ToApd(hostileDecimal(r, c, false))
		var d apd.Decimal
		_ = ctx.Rounding.Round(ctx, &d, x, r.Bool())
		ed := apd.MakeErrDecimal(ctx)
		ed.Add(&d, x, x)
		_ = ed.Err()
		_ = ed.Int64(x)
	})
	add("BigInt sequences", func(t *mon.T, r *rng.R, extreme bool) {
		bigIntSequence(t, r, 12)
	})
	return eps
}

func totalityCase(t *mon.T, extreme bool) {
	r := t.Rng
	ep := entryPoints[r.Intn(len(entryPoints))]
	start := time.Now()
	over, ticks, pan := budgeted(20000000, func() { ep.run(t, r, extreme) })
	el := time.Since(start).Seconds()
	t.Eval()
	t.Count("entry/" + ep.name)
	t.Nontrivial(fmt.Sprintf("%s|%d|%v", ep.name, t.Index, extreme))
	t.R.ChildMax("loop_ticks_per_call", float64(ticks))
	t.R.ChildMax("seconds_per_call", el)
	if over != "" {
		t.Fail("non-termination", map[string]interface{}{"entry": ep.name, "why": fmt.Sprintf("loop budget exceeded at site %q after %d ticks", over, ticks), "extreme": extreme})
	}
	if pan != nil {
		t.Fail("panic", map[string]interface{}{"entry": ep.name, "panic": fmt.Sprint(pan), "extreme": extreme})
	}
	if t.WantSample() {
		t.Sample(map[string]interface{}{"entry": ep.name, "extreme_exponents": extreme, "loop_ticks": ticks, "seconds": el})
	}
}

var highPrecisions = []int64{150, 300, 500, 1000, 1023, 1024, 1025, 2000, 2037, 2046, 2047, 2048, 2049, 2060, 2100, 2500, 3000, 3016, 3026, 3027, 3028, 3029, 3030, 3100, 4000, 5000, 10000}

// highPrecisionCase: contexts with thousands of digits (the internal constant
// tables and working precisions have their own boundaries there).
func highPrecisionCase(t *mon.T) {
	r := t.Rng
	p := highPrecisions[t.Index%int64(len(highPrecisions))]
	ops := []string{"ln", "log10", "exp", "pow", "sqrt", "cbrt", "add", "mul", "quo", "round"}
	op := ops[(t.Index/int64(len(highPrecisions)))%int64(len(ops))]
	c := dec.Ctx{P: p, Emin: -100000, Emax: 100000, Mode: gen.Mode(r)}
	x := dec.D{Form: dec.Finite, C: big.NewInt(r.Range(2, 99999)), E: r.Range(-4, 1)}
	var y dec.D
	switch op {
	case "pow":
		y = dec.D{Form: dec.Finite, C: big.NewInt(r.Range(1, 99)), E: -1}
	case "add", "mul", "quo":
		y = dec.D{Form: dec.Finite, C: big.NewInt(r.Range(1, 99999)), E: r.Range(-4, 1)}
	}
	var o Outcome
	start := time.Now()
	over, ticks, pan := budgeted(50000000, func() { o, _, _ = CallAliased(op, br.Context(c, 0), x, y, 0, AliasDistinct, nil) })
	el := time.Since(start).Seconds()
	t.Eval()
	t.Count("high-precision/" + op)
	t.Nontrivial(fmt.Sprintf("hp|%s|%d|%s", op, p, x.FullString()))
	t.R.ChildMax("seconds_per_call", el)
	if over != "" {
		t.Fail("non-termination", map[string]interface{}{"op": op, "precision": p, "x": x.FullString(), "why": fmt.Sprintf("loop budget exceeded at %q after %d ticks", over, ticks)})
	}
	if pan != nil {
		t.Fail("panic", map[string]interface{}{"op": op, "precision": p, "x": x.FullString(), "y": fmt.Sprint(y), "panic": fmt.Sprint(pan)})
	}
	if pan == nil && over == "" {
		if werr := br.WellFormed(o.Raw); werr != nil {
			t.Fail("ill-formed-result", detail(op, c, x, y, o, werr.Error()))
		}
	}
}

// giantCase: operands whose coefficient is longer than the whole exponent
// range (100001..140000 digits), or whose exponents lie at opposite ends of
// it, so that two operands of equal magnitude need aligning by more than
// 100000 places - the distance at which the internal scaling helpers report an
// error instead of a value.
func giantCase(t *mon.T) {
	r := t.Rng
	D := r.Range(100001, 140000)
	if r.Chance(1, 3) {
		D = []int64{100001, 100002, 100003, 131072}[r.Intn(4)]
	}
	small := func(adj int64) dec.D {
		c := big.NewInt(r.Range(1, 99999))
		e := adj - dec.NumDigits(c) + 1
		if e > gen.MaxExp {
			e = gen.MaxExp
		}
		if e < gen.MinExp {
			e = gen.MinExp
		}
		return dec.D{Form: dec.Finite, Neg: r.Bool(), C: c, E: e}
	}
	var x, y dec.D
	layout := 1 + r.Intn(3)
	switch layout {
	case 1: // giant integer against a short coefficient with the largest exponent
		cf, _ := new(big.Int).SetString(gen.Digits(r, D), 10)
		x = dec.D{Form: dec.Finite, Neg: r.Bool(), C: cf, E: 0}
		y = small(D - 1)
	case 2: // giant coefficient at the smallest exponent
		cf, _ := new(big.Int).SetString(gen.Digits(r, D), 10)
		x = dec.D{Form: dec.Finite, Neg: r.Bool(), C: cf, E: gen.MinExp}
		y = small(D - 1 + gen.MinExp + r.Range(-1, 1))
	default: // short coefficients, exponents at opposite ends
		x = small(gen.MaxExp - int64(r.Intn(3)))
		y = small(gen.MinExp + 5 + int64(r.Intn(3)))
		if r.Bool() {
			y = dec.Zero(r.Bool(), gen.MinExp)
		}
	}
	if r.Bool() {
		y.Neg = x.Neg
	}
	c := hostileContext(r)
	if c.P > 50 {
		c.P = int64(1 + r.Intn(50))
	}
	ops := []string{"add", "sub", "mul", "quo", "quoint", "rem", "cmp", "round", "reduce", "quantize", "rtie", "rtiv", "ceil", "floor", "abs", "neg", "sqrt", "cbrt"}
	run := func(name string, fn func()) {
		// one loop iteration on such operands can take milliseconds: the budget is
		// far above the few dozen iterations a legitimate call makes (Reduce: one
		// per trailing zero, at most one per digit), and small enough that an
		// endless loop is reported within a minute
		budget := int64(20000)
		if strings.Contains(name, "reduce") || strings.Contains(name, "Cmp/CmpTotal") {
			budget += 2 * D
		}
		over, ticks, pan := budgeted(budget, fn)
		t.Eval()
		t.R.ChildMax("loop_ticks_per_call", float64(ticks))
		if over != "" {
			t.Fail("non-termination", map[string]interface{}{"entry": name, "layout": layout, "coefficient_digits": D, "x_exp": x.E, "y": y.String(), "why": fmt.Sprintf("loop budget exceeded at site %q after %d ticks", over, ticks)})
		}
		if pan != nil {
			t.Fail("panic", map[string]interface{}{"entry": name, "layout": layout, "coefficient_digits": D, "x_exp": x.E, "y": y.String(), "panic": fmt.Sprint(pan)})
		}
	}
	ax, ay := br.ToApd(x), br.ToApd(y)
	run("Decimal.Cmp/CmpTotal/Reduce (giant)", func() {
		_, _ = ax.Cmp(ay), ay.Cmp(ax)
		_, _ = ax.CmpTotal(ay), ay.CmpTotal(ax)
		_, _, _ = ax.Sign(), ax.NumDigits(), ax.IsZero()
		var i, f apd.Decimal
		ax.Modf(&i, &f)
		var d apd.Decimal
		d.Reduce(ax)
		_, _ = ax.Int64()
	})
	for k := 0; k < 5; k++ {
		op := ops[r.Intn(len(ops))]
		a, b := x, y
		if r.Bool() && isBinaryOp(op) {
			a, b = y, x
		}
		var o Outcome
		run("Context."+op+" (giant)", func() {
			o, _, _ = CallAliased(op, br.Context(c, randomTraps(r)), a, b, r.Range(-5, 5), AliasDistinct, nil)
		})
		if o.Raw != nil {
			if werr := br.WellFormed(o.Raw); werr != nil {
				t.Fail("ill-formed-result", map[string]interface{}{"op": op, "layout": layout, "coefficient_digits": D, "why": werr.Error()})
			}
		}
		t.Count("giant/" + op)
	}
	t.Count("giant-operands")
	t.Nontrivial(fmt.Sprintf("giant|%d|%d|%d", layout, D, t.Index))
}

func pinnedC04(t *mon.T) {
	run := func(name string, fn func()) {
		over, _, pan := budgeted(4000000, fn)
		t.Eval()
		t.Count("pinned")
		if over != "" || pan != nil {
			t.Fail("panic-or-non-termination", map[string]interface{}{"pinned": name, "why": fmt.Sprintf("overrun=%q panic=%v", over, pan)})
		}
	}
	run("NumDigits(-10^45)", func() {
		var b apd.BigInt
		b.SetString("-1000000000000000000000000000000000000000000000", 10)
		apd.NumDigits(&b)
	})
	run("NewFromString(+.-123...)", func() {
		d, _, err := apd.NewFromString("+.-1234567890123456789012345678901234567890")
		if err == nil {
			checkParsed(t, "NewFromString", "+.-1234567890123456789012345678901234567890", d)
			_ = d.String()
		}
	})
	run("Ln(1.05) Traps=Inexact", func() {
		c := apd.Context{Precision: 5, MaxExponent: 99, MinExponent: -99, Traps: apd.Inexact}
		var d apd.Decimal
		c.Ln(&d, apd.New(105, -2))
	})
	{
		// fixed: Cbrt's range reduction spun forever on operands of more than 100000 digits
		x := new(apd.Decimal)
		x.Coeff.SetString("7"+strings.Repeat("3", 100010), 10)
		over, _, pan := budgeted(20000, func() {
			c := apd.Context{Precision: 4, MaxExponent: 100000, MinExponent: -100000}
			var d apd.Decimal
			c.Cbrt(&d, x)
		})
		t.Eval()
		t.Count("pinned")
		if over != "" || pan != nil {
			t.Fail("panic-or-non-termination", map[string]interface{}{"pinned": "Cbrt(100011-digit integer) p=4", "why": fmt.Sprintf("overrun=%q panic=%v", over, pan)})
		}
	}
	for _, s := range []string{".-5", "nansnan", "İnf", "1e+-5", "--1", "+", ".", "e5", "1e", "0x10", "1_0"} {
		s := s
		run("parse "+s, func() {
			d, _, err := apd.NewFromString(s)
			if err == nil {
				t.Fail("parser-accepts-ungrammatical", map[string]interface{}{"s": s, "got": br.FromApd(d).FullString()})
			}
		})
	}
}

// hostileBytes: what arrives when the text is not text - a numeric prefix (or
// none), then a run of one byte value (UTF-8 continuation bytes, lead bytes
// without continuation, 0xFF, NUL, padding from a fixed-width Latin-1 field)
// of every length up to 70 and a few long ones, or random high bytes, then an
// optional numeric suffix. Invalid UTF-8 cannot come out of the grammar or of
// single-byte mutations of it.
func hostileBytes(r *rng.R) string {
	pre := []string{"", "", "", "-", "+", "1", "12.5", "1e", "1E+", "NaN", "sNaN", "Inf", "-Infinity", "0.", "."}[r.Intn(15)]
	var n int
	switch r.Intn(8) {
	case 0:
		n = []int{128, 255, 256, 257, 1000, 4096, 70000}[r.Intn(7)]
	default:
		n = 1 + r.Intn(70)
	}
	run := make([]byte, n)
	if r.Chance(1, 4) {
		for i := range run {
			run[i] = byte(0x80 + r.Intn(0x80))
		}
	} else {
		b := []byte{0x80, 0x8f, 0xa0, 0xbf, 0xc0, 0xc2, 0xe2, 0xf0, 0xf4, 0xff, 0x00, 0x7f, ' ', 0xef}[r.Intn(14)]
		for i := range run {
			run[i] = b
		}
	}
	suf := []string{"", "", "1", "e5", ".5", "E-3", "\xe2\x88\x92"}[r.Intn(7)]
	return pre + string(run) + suf
}

func hostileBytesCase(t *mon.T) {
	r := t.Rng
	s := hostileBytes(r)
	c := hostileContext(r)
	over, ticks, pan := budgeted(20000000, func() {
		msg := func(err error) {
			if err != nil {
				_ = err.Error()
			}
		}
		d, _, err := apd.NewFromString(s)
		msg(err)
		if err == nil {
			checkParsed(t, "NewFromString", s, d)
		}
		d, _, err = br.Context(c, randomTraps(r)).NewFromString(s)
		msg(err)
		if err == nil {
			checkParsed(t, "Context.NewFromString", s, d)
		}
		var d1, d2, d3, d4, d5 apd.Decimal
		_, _, err = d1.SetString(s)
		msg(err)
		_, _, err = br.Context(c, 0).SetString(&d5, s)
		msg(err)
		msg(d2.UnmarshalText([]byte(s)))
		msg(d3.Scan(s))
		msg(d4.Scan([]byte(s)))
		var nd apd.NullDecimal
		msg(nd.Scan(s))
		msg(nd.Scan([]byte(s)))
		var b1, b2, b3 apd.BigInt
		b1.SetString(s, 10)
		b1.SetString(s, 0)
		msg(b2.UnmarshalText([]byte(s)))
		msg(b3.UnmarshalJSON([]byte(s)))
		_, err = fmt.Sscan(s, &b3)
		msg(err)
		_, err = fmt.Sscan(s, &d4)
		msg(err)
		_ = fmt.Sprintf(s, &d1)
		_ = fmt.Sprintf(s, d1)
	})
	t.EvalN(16)
	t.Count("hostile-bytes")
	t.Nontrivial(fmt.Sprintf("hb|%d", t.Index))
	if over != "" {
		t.Fail("non-termination", map[string]interface{}{"entry": "parsers/hostile-bytes", "s": fmt.Sprintf("%q", clip(s)), "why": fmt.Sprintf("loop budget exceeded at site %q after %d ticks", over, ticks)})
	}
	if pan != nil {
		t.Fail("panic", map[string]interface{}{"entry": "parsers/hostile-bytes", "s": fmt.Sprintf("%q", clip(s)), "panic": fmt.Sprint(pan)})
	}
}

func runC04(r *mon.Run) {
	r.Rule = "cases: one call (or short sequence) of a randomly chosen exported entry point - the 22 Context operations with hostile contexts " +
		"(Precision 0, package-limit exponent range, any trap set, unknown rounding names, aliased destination), the parsers on grammar " +
		"sentences / single-byte mutations / fragment concatenations / random bytes / runs of 1..70 (and up to 70000) UTF-8 continuation bytes, lone lead bytes, 0xFF, NUL and other invalid UTF-8 behind a numeric prefix, the formatters with random fmt verbs and flags, " +
		"conversions, Compose/Decompose, Condition/Rounder helpers, ErrDecimal, BigInt method sequences (negative values of every size " +
		"class); a separate stratum places exponents at the +/-100000 limits and another uses precisions from 150 to 10000 digits (around the 2^k and constant-table boundaries), and a giant-operand stratum uses coefficients of 100001..140000 digits and exponents at opposite ends of the range (equal magnitudes that need aligning by more than 100000 places); an API-surface stratum enumerates the method sets of the exported types by reflection and drives every method that is not in the snapshot taken at the pinned commit with arguments built from its parameter types. Every call runs in a serial child process under recover() and " +
		"a logical loop-iteration budget; a fatal runtime error is attributed through the journal and confirmed by re-running the case " +
		"alone. Successful parses are checked for the structural invariant. distinct_nontrivial = distinct (entry point, case) executed."
	r.Assumptions = []string{"'does not return' is decided as exceeding the loop-tick budget (2e7 ticks per call); a wall-clock watchdog firing without a tick overrun is inconclusive, not a violation",
		"BigInt methods are called inside the domain math/big documents (no division by zero, no negative square root, valid bases)"}
	r.Isolated("pinned", 1, 1, 120*time.Second, pinnedC04)
	r.Isolated("totality", r.N(240000, 24000000), 16, 3000*time.Second, func(t *mon.T) { totalityCase(t, false) })
	r.Isolated("extreme-exponents", r.N(2400, 120000), 16, 6000*time.Second, func(t *mon.T) { totalityCase(t, true) })
	r.Isolated("high-precision", r.N(int64(len(highPrecisions))*10, int64(len(highPrecisions))*100), 16, 6000*time.Second, highPrecisionCase)
	r.Isolated("giant-operands", r.N(64, 3200), 16, 6000*time.Second, giantCase)
	r.Isolated("api-surface", r.N(3000, 100000), 16, 6000*time.Second, apiSurfaceCase)
	r.Isolated("hostile-bytes", r.N(6000, 600000), 16, 3000*time.Second, hostileBytesCase)
	if r.IsChild() {
		return
	}
	r.Require("hostile-bytes", 5000)
	r.Require("giant-operands", 60)
	r.Require("api-surface", 2000)
	for _, op := range []string{"ln", "log10", "exp", "pow", "sqrt", "cbrt", "add", "mul", "quo", "round"} {
		r.Require("high-precision/"+op, 20)
	}
	for _, ep := range entryPoints {
		r.Require("entry/"+ep.name, 50)
	}
	r.Require("pinned", 15)
	_ = bytes.MinRead
}
