package props

import (
	"fmt"
	"math/big"

	"github.com/cockroachdb/apd/v3"

	"verif/internal/br"
	"verif/internal/dec"
)

// Expect is what the reference model demands of one call.
type Expect struct {
	// Res is the expected value; compared numerically (sign of zero included)
	// unless AnyZeroSign is set.
	Res dec.D
	// ResNaN: the result must be a quiet NaN.
	ResNaN bool
	// AltZeroNeg: when the expected result is a zero, a zero of the other sign
	// is accepted too.
	AltZeroNeg bool
	// Must / MustNot are flag equalities; bits in neither are unconstrained.
	Must    apd.Condition
	MustNot apd.Condition
	// Skip: the case is outside the property's domain (reason given).
	Skip string
	// Class for histograms.
	Class string
	// Nontrivial marks the case as counting towards distinct_nontrivial.
	Nontrivial bool
	// ExpExponent, when HasExp, is the exact exponent the result must have.
	HasExp      bool
	ExpExponent int64
	// SystemLimitOK: an exponent-limit error is an accepted outcome.
	SystemLimitOK bool
}

const coreFlags = apd.Inexact | apd.Subnormal | apd.Underflow | apd.Overflow
const divFlags = apd.DivisionByZero | apd.DivisionUndefined | apd.DivisionImpossible | apd.InvalidOperation
const sysFlags = apd.SystemOverflow | apd.SystemUnderflow

func abs64(a int64) int64 {
	if a < 0 {
		return -a
	}
	return a
}

// nearSystemLimit reports whether any exponent quantity of the call is close
// enough to the package limits that an exponent-limit error is legitimate.
func nearSystemLimit(vals ...int64) bool {
	for _, v := range vals {
		if abs64(v) >= 99000 {
			return true
		}
	}
	return false
}

// fromRounded turns a RoundOnce outcome into expectations on value and flags.
func fromRounded(r dec.Rounded) Expect {
	var e Expect
	e.Res = r.Res
	e.Class = r.Class
	if r.Unconstrained {
		e.Skip = "p0-outside-exponent-range"
		return e
	}
	set := func(b bool, f apd.Condition) {
		if b {
			e.Must |= f
		} else {
			e.MustNot |= f
		}
	}
	set(r.Inexact, apd.Inexact)
	set(r.Subnormal, apd.Subnormal)
	set(r.Underflow, apd.Underflow)
	set(r.Overflow, apd.Overflow)
	if r.Inexact && !r.Overflow {
		// "On finite results Inexact implies Rounded".
		e.Must |= apd.Rounded
	}
	e.MustNot |= divFlags
	e.Nontrivial = r.Inexact || r.Subnormal || r.Overflow
	return e
}

// ModelArith is the reference model of the single-rounding arithmetic
// operations on finite operands: add, sub, mul, quo, abs, neg, round.
func ModelArith(op string, c dec.Ctx, x, y dec.D) Expect {
	var ex dec.Exact
	zeroNeg := false
	altZero := false
	// limitZone: some exponent quantity of the call is close to the package
	// limits, where an exponent-limit error is an accepted outcome. If the call
	// delivers a result instead, that result is still judged.
	limitZone := false
	switch op {
	case "add", "sub":
		ex = dec.AddExact(x, y, op == "sub")
		yn := y.Neg != (op == "sub")
		if x.Neg == yn {
			zeroNeg = x.Neg
		} else {
			zeroNeg = c.Mode == "floor"
		}
		if nearSystemLimit(x.E-y.E, x.E, y.E, x.Adj(), y.Adj()) {
			limitZone = true
		}
	case "mul":
		ex = dec.MulExact(x, y)
		zeroNeg = x.Neg != y.Neg
		if nearSystemLimit(x.E+y.E, x.E, y.E, x.Adj()+y.Adj()) {
			limitZone = true
		}
	case "quo":
		if y.IsZero() {
			return Expect{Skip: "division-by-zero (C08)"}
		}
		if c.P == 0 {
			return Expect{Skip: "quo-needs-precision"}
		}
		ex = dec.QuoExact(x, y)
		zeroNeg = x.Neg != y.Neg
		if nearSystemLimit(x.E-y.E, x.E, y.E, x.Adj()-y.Adj()) {
			limitZone = true
		}
	case "abs":
		ex = dec.ExactOf(x)
		ex.Neg = false
	case "neg":
		ex = dec.ExactOf(x)
		ex.Neg = !x.Neg
		// apd documents Neg(0) = +0 for either zero; the GDA gives -0 for +0
		// under floor. Both are accepted.
		zeroNeg = false
		altZero = true
	case "round":
		ex = dec.ExactOf(x)
		zeroNeg = x.Neg
	default:
		panic("ModelArith: " + op)
	}
	if ex.IsZero() {
		e := Expect{Res: dec.Zero(zeroNeg, 0), Class: "exact-zero", MustNot: coreFlags | divFlags, AltZeroNeg: altZero, SystemLimitOK: limitZone}
		// cancellation of non-zero operands is a non-trivial case
		if (op == "add" || op == "sub") && !x.IsZero() {
			e.Nontrivial = true
			e.Class = "cancel-to-zero"
		}
		return e
	}
	if nearSystemLimit(dec.AdjExact(ex)) {
		limitZone = true
	}
	e := fromRounded(dec.RoundOnce(ex, c))
	e.SystemLimitOK = limitZone
	return e
}

// Outcome is what apd returned for a call.
type Outcome struct {
	Res   dec.D
	Flags apd.Condition
	Err   error
	Raw   *apd.Decimal
}

// CallArith runs the apd operation on fresh operands.
// usedDestination returns the destination for a monitored call. Two calls in
// three (chosen by a hash of the first operand, so that a replay gets the
// same one) write into a Decimal that was used before - it holds a huge
// heap-backed coefficient, a NaN, an infinity or a small value - because that
// is what destinations look like in a running program, and results must not
// depend on it (C06).
func usedDestination(x dec.D) *apd.Decimal {
	d := new(apd.Decimal)
	h := uint64(x.E)*0x9e3779b97f4a7c15 + uint64(x.Form)
	if x.C != nil && x.C.Sign() != 0 {
		h ^= uint64(x.C.Bits()[0]) * 0x94d049bb133111eb
	}
	h ^= h >> 31
	switch h % 6 {
	case 0:
		c, _ := new(big.Int).SetString("987654321098765432109876543210987654321098765432109876543210987654321", 10)
		br.SetApd(d, dec.D{Form: dec.Finite, Neg: true, C: c, E: -123})
	case 1:
		br.SetApd(d, dec.Special(dec.NaN, true))
		d.Coeff.SetInt64(777)
	case 2:
		br.SetApd(d, dec.Special(dec.Inf, false))
	case 3:
		br.SetApd(d, dec.D{Form: dec.Finite, C: new(big.Int).Lsh(big.NewInt(12345), 70), E: 9})
	}
	return d
}

func CallArith(op string, ctx *apd.Context, x, y dec.D) Outcome {
	d := usedDestination(x)
	ax := br.ToApd(x)
	var ay *apd.Decimal
	if y.C != nil {
		ay = br.ToApd(y)
	}
	var res apd.Condition
	var err error
	switch op {
	case "add":
		res, err = ctx.Add(d, ax, ay)
	case "sub":
		res, err = ctx.Sub(d, ax, ay)
	case "mul":
		res, err = ctx.Mul(d, ax, ay)
	case "quo":
		res, err = ctx.Quo(d, ax, ay)
	case "abs":
		res, err = ctx.Abs(d, ax)
	case "neg":
		res, err = ctx.Neg(d, ax)
	case "round":
		res, err = ctx.Round(d, ax)
	case "quoint":
		res, err = ctx.QuoInteger(d, ax, ay)
	case "rem":
		res, err = ctx.Rem(d, ax, ay)
	case "rtie":
		res, err = ctx.RoundToIntegralExact(d, ax)
	case "rtiv":
		res, err = ctx.RoundToIntegralValue(d, ax)
	case "ceil":
		res, err = ctx.Ceil(d, ax)
	case "floor":
		res, err = ctx.Floor(d, ax)
	case "sqrt":
		res, err = ctx.Sqrt(d, ax)
	case "cbrt":
		res, err = ctx.Cbrt(d, ax)
	case "exp":
		res, err = ctx.Exp(d, ax)
	case "ln":
		res, err = ctx.Ln(d, ax)
	case "log10":
		res, err = ctx.Log10(d, ax)
	case "pow":
		res, err = ctx.Pow(d, ax, ay)
	case "reduce":
		_, res, err = ctx.Reduce(d, ax)
	case "cmp":
		res, err = ctx.Cmp(d, ax, ay)
	default:
		panic("CallArith: " + op)
	}
	return Outcome{Res: br.FromApd(d), Flags: res, Err: err, Raw: d}
}

// CheckValue compares an outcome with the expectation; returns "" if it
// holds, else a description.
func CheckValue(e Expect, o Outcome) string {
	if werr := br.WellFormed(o.Raw); werr != nil {
		return "ill-formed result: " + werr.Error()
	}
	if e.ResNaN {
		if o.Res.Form != dec.NaN {
			return fmt.Sprintf("expected quiet NaN, got %s", o.Res)
		}
		return ""
	}
	if dec.SameValue(e.Res, o.Res) {
		if e.HasExp && o.Res.Form == dec.Finite && o.Res.E != e.ExpExponent {
			return fmt.Sprintf("expected exponent %d, got %s", e.ExpExponent, o.Res)
		}
		return ""
	}
	if e.AltZeroNeg && e.Res.IsZero() && o.Res.IsZero() {
		return ""
	}
	return fmt.Sprintf("expected %s, got %s", e.Res, o.Res)
}

// CheckFlags checks flag equalities and the implications C02 states.
func CheckFlags(e Expect, o Outcome) string {
	f := o.Flags
	if f&^br.AllFlags != 0 {
		return "undocumented condition bits: " + br.FlagNames(f)
	}
	if miss := e.Must &^ f; miss != 0 {
		return fmt.Sprintf("missing %s (got %s)", br.FlagNames(miss), br.FlagNames(f))
	}
	if extra := e.MustNot & f; extra != 0 {
		return fmt.Sprintf("unexpected %s (got %s)", br.FlagNames(extra), br.FlagNames(f))
	}
	return CheckImplications(o)
}

// CheckImplications checks the flag implications that hold for every call.
func CheckImplications(o Outcome) string {
	f := o.Flags
	if f&^br.AllFlags != 0 {
		return "undocumented condition bits: " + br.FlagNames(f)
	}
	if f&apd.Overflow != 0 && f&sysFlags == 0 && f&apd.Inexact == 0 {
		return "Overflow without Inexact: " + br.FlagNames(f)
	}
	if f&apd.Underflow != 0 && f&sysFlags == 0 && (f&apd.Subnormal == 0 || f&apd.Inexact == 0) {
		return "Underflow without Subnormal and Inexact: " + br.FlagNames(f)
	}
	if o.Res.Form == dec.Finite && f&apd.Inexact != 0 && f&apd.Rounded == 0 {
		return "Inexact without Rounded on a finite result: " + br.FlagNames(f)
	}
	if f&sysFlags != 0 && o.Err == nil {
		return "system limit flag without error: " + br.FlagNames(f)
	}
	return ""
}

// CheckFit checks C07 for a finite result of a rounding operation.
func CheckFit(c dec.Ctx, o Outcome) string {
	if werr := br.WellFormed(o.Raw); werr != nil {
		return "ill-formed result: " + werr.Error()
	}
	if o.Res.Form != dec.Finite {
		return ""
	}
	nd := int64(len(o.Raw.Coeff.String())) // digit count from text, not apd.NumDigits
	if o.Res.C.Sign() == 0 {
		nd = 1
	}
	if c.P > 0 && nd > c.P {
		return fmt.Sprintf("coefficient has %d digits > Precision %d: %s", nd, c.P, o.Res)
	}
	// the upper bound holds for zeros too (their adjusted exponent is their
	// exponent; the lower bound is stated for non-zero values only)
	if adj := o.Res.E + nd - 1; adj > c.Emax {
		return fmt.Sprintf("adjusted exponent %d > MaxExponent %d: %s", adj, c.Emax, o.Res)
	}
	if o.Res.C.Sign() != 0 {
		if c.P > 0 && o.Res.E < c.Etiny() {
			return fmt.Sprintf("exponent %d < Etiny %d: %s", o.Res.E, c.Etiny(), o.Res)
		}
	}
	return ""
}

func detail(op string, c dec.Ctx, x, y dec.D, o Outcome, why string) map[string]interface{} {
	m := map[string]interface{}{"op": op, "ctx": c.String(), "x": x.FullString(), "got": o.Res.FullString(),
		"flags": br.FlagNames(o.Flags), "why": why}
	if y.C != nil {
		m["y"] = y.FullString()
	}
	if o.Err != nil {
		m["err"] = o.Err.Error()
	}
	return m
}

func bigInt(v int64) *big.Int { return big.NewInt(v) }
