package props

import (
	"fmt"
	"math/big"
	"time"

	"github.com/cockroachdb/apd/v3"

	"verif/internal/br"
	"verif/internal/dec"
	"verif/internal/gen"
	"verif/internal/mon"
	"verif/internal/rng"
)

func init() {
	register("C03", runC03)
}

func isSingleRounding(op string) bool {
	switch op {
	case "add", "sub", "mul", "quo", "quoint", "rem", "abs", "neg", "round", "quantize", "rtiv", "rtie", "reduce", "cmp":
		return true
	}
	return false
}

// loopBudget is the logical iteration budget for one call: far above any
// legitimate call of the generated sizes (the heaviest legitimate calls of
// the workloads use a few thousand ticks).
func loopBudget(c dec.Ctx, x, y dec.D) int64 {
	b := int64(2000000) + 200*(c.P+x.Digits()+abs64(x.E))
	if y.C != nil {
		b += 200 * (y.Digits() + abs64(y.E))
	}
	return b
}

// budgeted runs fn with the loop budget armed; it reports a budget overrun
// (site) or any other panic.
func budgeted(budget int64, fn func()) (overrun string, ticks int64, panicked interface{}) {
	defer func() {
		ticks = apd.VerifLoopTicks()
		apd.VerifArmLoopBudget(0)
		if p := recover(); p != nil {
			if e, ok := p.(apd.VerifLoopBudgetExceeded); ok {
				overrun = e.Site
				return
			}
			panicked = p
		}
	}()
	apd.VerifArmLoopBudget(budget)
	fn()
	return
}

type trapOutcome struct {
	o       Outcome
	n       int // Reduce count
	overrun string
	ticks   int64
	panic   interface{}
}

func callTrapped(op string, c dec.Ctx, traps apd.Condition, x, y dec.D, aux int64, s string) trapOutcome {
	var to trapOutcome
	ctx := br.Context(c, traps)
	to.overrun, to.ticks, to.panic = budgeted(loopBudget(c, x, y), func() {
		switch op {
		case "parse":
			d := new(apd.Decimal)
			got, res, err := ctx.SetString(d, s)
			if got == nil {
				d = new(apd.Decimal)
				d.Form = apd.NaN
			}
			to.o = Outcome{Res: br.FromApd(d), Flags: res, Err: err, Raw: d}
		case "reduce":
			d := new(apd.Decimal)
			n, res, err := ctx.Reduce(d, br.ToApd(x))
			to.n = n
			to.o = Outcome{Res: br.FromApd(d), Flags: res, Err: err, Raw: d}
		default:
			to.o, _, _ = CallAliased(op, ctx, x, y, aux, AliasDistinct, nil)
		}
	})
	return to
}

var singletons = []apd.Condition{apd.SystemOverflow, apd.SystemUnderflow, apd.Overflow, apd.Underflow, apd.Inexact, apd.Subnormal, apd.Rounded,
	apd.DivisionUndefined, apd.DivisionByZero, apd.DivisionImpossible, apd.InvalidOperation, apd.Clamped}

func trapCase(t *mon.T, allSets bool) {
	r := t.Rng
	op, c, x, y, aux := opOperands(r)
	s := ""
	if r.Chance(1, 12) {
		op = "parse"
		x = gen.Finite(r, c)
		y = dec.D{}
		s = decimalString(r, x)
	}
	trapCaseOn(t, allSets, op, c, x, y, aux, s)
}

// highPrecisionTrapCase: the composite functions at several hundred digits,
// where their float64 estimates leave their range and special paths take over.
func highPrecisionTrapCase(t *mon.T) {
	r := t.Rng
	c := dec.Ctx{P: r.Range(300, 700), Emin: -100000, Emax: 100000, Mode: gen.Mode(r)}
	switch r.Intn(4) {
	case 0: // exp of a tiny argument: 1 + x exactly representable or not
		x := dec.D{Form: dec.Finite, Neg: r.Bool(), C: big.NewInt(r.Range(1, 999)), E: -r.Range(300, c.P+3)}
		trapCaseOn(t, false, "exp", c, x, dec.D{}, 0, "")
	case 1:
		trapCaseOn(t, false, "exp", c, gen.WithAdj(r.Bool(), big.NewInt(r.Range(1, 9999)), r.Range(-6, 1)), dec.D{}, 0, "")
	case 2:
		trapCaseOn(t, false, []string{"ln", "log10"}[r.Intn(2)], c, dec.D{Form: dec.Finite, C: big.NewInt(r.Range(2, 9999)), E: r.Range(-4, 2)}, dec.D{}, 0, "")
	default:
		trapCaseOn(t, false, []string{"sqrt", "cbrt"}[r.Intn(2)], c, dec.D{Form: dec.Finite, C: big.NewInt(r.Range(2, 9999)), E: r.Range(-4, 2)}, dec.D{}, 0, "")
	}
	t.Count("traps-high-precision")
}

func trapCaseOn(t *mon.T, allSets bool, op string, c dec.Ctx, x, y dec.D, aux int64, s string) {
	r := t.Rng
	base := callTrapped(op, c, 0, x, y, aux, s)
	t.Eval()
	report := func(kind, why string, traps apd.Condition, to trapOutcome) {
		d := detail(op, c, x, y, to.o, why)
		d["traps"] = br.FlagNames(traps)
		d["untrapped"] = meaningful(base.o.Res) + " [" + br.FlagNames(base.o.Flags) + "]"
		d["aux"] = aux
		if s != "" {
			d["s"] = s
		}
		t.Fail(kind, d)
	}
	if base.overrun != "" || base.panic != nil {
		report("non-termination-or-panic", fmt.Sprintf("untrapped call: loop budget overrun at %q / panic %v", base.overrun, base.panic), 0, base)
		return
	}
	t.R.ChildMax("loop_ticks_per_call", float64(base.ticks))
	flags0 := base.o.Flags
	sys := flags0&sysFlags != 0 || isSystemErr(base.o.Err) || (base.o.Err != nil && flags0 == 0 && isSingleRounding(op))
	if base.o.Err != nil && !sys {
		// errors other than system limits with no traps (e.g. "did not converge",
		// zero precision): not a trap question
		t.Skip("untrapped-error:" + op)
		return
	}
	var sets []apd.Condition
	if allSets {
		for m := 0; m < 4096; m++ {
			sets = append(sets, apd.Condition(m))
		}
	} else {
		sets = append(sets, singletons...)
		sets = append(sets, apd.DefaultTraps, br.AllFlags)
		for k := 0; k < 4; k++ {
			sets = append(sets, apd.Condition(r.U64())&br.AllFlags)
		}
	}
	single := isSingleRounding(op)
	t.Count("op/" + op)
	fired := false
	for _, T := range sets {
		if T == 0 {
			continue
		}
		to := callTrapped(op, c, T, x, y, aux, s)
		t.Eval()
		if to.overrun != "" {
			report("non-termination", fmt.Sprintf("loop budget exceeded at site %q after %d ticks: the call does not return under this trap set", to.overrun, to.ticks), T, to)
			return
		}
		if to.panic != nil {
			report("panic", fmt.Sprintf("panic under this trap set: %v", to.panic), T, to)
			return
		}
		t.R.ChildMax("loop_ticks_per_call", float64(to.ticks))
		expectErr := flags0&T != 0 || sys
		if expectErr {
			fired = true
			t.Count("trap-fired/" + op)
		}
		gotErr := to.o.Err != nil
		if expectErr && !gotErr {
			report("trapped-condition-without-error", "a condition in the trap set (or a system limit) was raised but the error is nil", T, to)
			return
		}
		same := func() string {
			if to.o.Flags != flags0 {
				return fmt.Sprintf("Condition differs from the untrapped run: %s vs %s", br.FlagNames(to.o.Flags), br.FlagNames(flags0))
			}
			if meaningful(to.o.Res) != meaningful(base.o.Res) {
				return fmt.Sprintf("destination differs from the untrapped run: %s vs %s", meaningful(to.o.Res), meaningful(base.o.Res))
			}
			if op == "reduce" && to.n != base.n {
				return fmt.Sprintf("Reduce count differs from the untrapped run: %d vs %d", to.n, base.n)
			}
			return ""
		}
		if !gotErr {
			if why := same(); why != "" {
				report("traps-change-result", "error is nil but "+why, T, to)
				return
			}
		}
		if single {
			if gotErr && !expectErr {
				report("error-without-trapped-condition", "error although flags&Traps == 0 and no system limit was hit", T, to)
				return
			}
			if gotErr && !sys && !isSystemOutcome(to.o) {
				if why := same(); why != "" {
					report("result-not-delivered-with-trap-error", why, T, to)
					return
				}
			}
		}
	}
	if fired {
		t.Nontrivial(fmt.Sprintf("%s|%s|%s|%s|%d|%s", op, c, x.FullString(), y.FullString(), aux, s))
	}
	if t.WantSample() {
		t.Sample(map[string]interface{}{"op": op, "ctx": c.String(), "x": x.String(), "y": fmt.Sprint(y), "untrapped_flags": br.FlagNames(flags0), "trap_sets": len(sets)})
	}
}

// ---- ErrDecimal sequence model

type edStep struct {
	name string
	ed   func(e *apd.ErrDecimal, p []*apd.Decimal, a, b, d int, aux int32) (int, int64)
	dir  func(c *apd.Context, p []*apd.Decimal, a, b, d int, aux int32) (apd.Condition, error, int, int64)
}

var edSteps = []edStep{
	{"Abs", func(e *apd.ErrDecimal, p []*apd.Decimal, a, b, d int, aux int32) (int, int64) {
		e.Abs(p[d], p[a])
		return 0, 0
	},
		func(c *apd.Context, p []*apd.Decimal, a, b, d int, aux int32) (apd.Condition, error, int, int64) {
			r, err := c.Abs(p[d], p[a])
			return r, err, 0, 0
		}},
	{"Add", func(e *apd.ErrDecimal, p []*apd.Decimal, a, b, d int, aux int32) (int, int64) {
		e.Add(p[d], p[a], p[b])
		return 0, 0
	},
		func(c *apd.Context, p []*apd.Decimal, a, b, d int, aux int32) (apd.Condition, error, int, int64) {
			r, err := c.Add(p[d], p[a], p[b])
			return r, err, 0, 0
		}},
	{"Ceil", func(e *apd.ErrDecimal, p []*apd.Decimal, a, b, d int, aux int32) (int, int64) {
		e.Ceil(p[d], p[a])
		return 0, 0
	},
		func(c *apd.Context, p []*apd.Decimal, a, b, d int, aux int32) (apd.Condition, error, int, int64) {
			r, err := c.Ceil(p[d], p[a])
			return r, err, 0, 0
		}},
	{"Exp", func(e *apd.ErrDecimal, p []*apd.Decimal, a, b, d int, aux int32) (int, int64) {
		e.Exp(p[d], p[a])
		return 0, 0
	},
		func(c *apd.Context, p []*apd.Decimal, a, b, d int, aux int32) (apd.Condition, error, int, int64) {
			r, err := c.Exp(p[d], p[a])
			return r, err, 0, 0
		}},
	{"Floor", func(e *apd.ErrDecimal, p []*apd.Decimal, a, b, d int, aux int32) (int, int64) {
		e.Floor(p[d], p[a])
		return 0, 0
	},
		func(c *apd.Context, p []*apd.Decimal, a, b, d int, aux int32) (apd.Condition, error, int, int64) {
			r, err := c.Floor(p[d], p[a])
			return r, err, 0, 0
		}},
	{"Ln", func(e *apd.ErrDecimal, p []*apd.Decimal, a, b, d int, aux int32) (int, int64) {
		e.Ln(p[d], p[a])
		return 0, 0
	},
		func(c *apd.Context, p []*apd.Decimal, a, b, d int, aux int32) (apd.Condition, error, int, int64) {
			r, err := c.Ln(p[d], p[a])
			return r, err, 0, 0
		}},
	{"Log10", func(e *apd.ErrDecimal, p []*apd.Decimal, a, b, d int, aux int32) (int, int64) {
		e.Log10(p[d], p[a])
		return 0, 0
	},
		func(c *apd.Context, p []*apd.Decimal, a, b, d int, aux int32) (apd.Condition, error, int, int64) {
			r, err := c.Log10(p[d], p[a])
			return r, err, 0, 0
		}},
	{"Mul", func(e *apd.ErrDecimal, p []*apd.Decimal, a, b, d int, aux int32) (int, int64) {
		e.Mul(p[d], p[a], p[b])
		return 0, 0
	},
		func(c *apd.Context, p []*apd.Decimal, a, b, d int, aux int32) (apd.Condition, error, int, int64) {
			r, err := c.Mul(p[d], p[a], p[b])
			return r, err, 0, 0
		}},
	{"Neg", func(e *apd.ErrDecimal, p []*apd.Decimal, a, b, d int, aux int32) (int, int64) {
		e.Neg(p[d], p[a])
		return 0, 0
	},
		func(c *apd.Context, p []*apd.Decimal, a, b, d int, aux int32) (apd.Condition, error, int, int64) {
			r, err := c.Neg(p[d], p[a])
			return r, err, 0, 0
		}},
	{"Pow", func(e *apd.ErrDecimal, p []*apd.Decimal, a, b, d int, aux int32) (int, int64) {
		e.Pow(p[d], p[a], p[b])
		return 0, 0
	},
		func(c *apd.Context, p []*apd.Decimal, a, b, d int, aux int32) (apd.Condition, error, int, int64) {
			r, err := c.Pow(p[d], p[a], p[b])
			return r, err, 0, 0
		}},
	{"Quantize", func(e *apd.ErrDecimal, p []*apd.Decimal, a, b, d int, aux int32) (int, int64) {
		e.Quantize(p[d], p[a], aux)
		return 0, 0
	},
		func(c *apd.Context, p []*apd.Decimal, a, b, d int, aux int32) (apd.Condition, error, int, int64) {
			r, err := c.Quantize(p[d], p[a], aux)
			return r, err, 0, 0
		}},
	{"Quo", func(e *apd.ErrDecimal, p []*apd.Decimal, a, b, d int, aux int32) (int, int64) {
		e.Quo(p[d], p[a], p[b])
		return 0, 0
	},
		func(c *apd.Context, p []*apd.Decimal, a, b, d int, aux int32) (apd.Condition, error, int, int64) {
			r, err := c.Quo(p[d], p[a], p[b])
			return r, err, 0, 0
		}},
	{"QuoInteger", func(e *apd.ErrDecimal, p []*apd.Decimal, a, b, d int, aux int32) (int, int64) {
		e.QuoInteger(p[d], p[a], p[b])
		return 0, 0
	},
		func(c *apd.Context, p []*apd.Decimal, a, b, d int, aux int32) (apd.Condition, error, int, int64) {
			r, err := c.QuoInteger(p[d], p[a], p[b])
			return r, err, 0, 0
		}},
	{"Reduce", func(e *apd.ErrDecimal, p []*apd.Decimal, a, b, d int, aux int32) (int, int64) {
		n, _ := e.Reduce(p[d], p[a])
		return n, 0
	},
		func(c *apd.Context, p []*apd.Decimal, a, b, d int, aux int32) (apd.Condition, error, int, int64) {
			n, r, err := c.Reduce(p[d], p[a])
			return r, err, n, 0
		}},
	{"Rem", func(e *apd.ErrDecimal, p []*apd.Decimal, a, b, d int, aux int32) (int, int64) {
		e.Rem(p[d], p[a], p[b])
		return 0, 0
	},
		func(c *apd.Context, p []*apd.Decimal, a, b, d int, aux int32) (apd.Condition, error, int, int64) {
			r, err := c.Rem(p[d], p[a], p[b])
			return r, err, 0, 0
		}},
	{"Round", func(e *apd.ErrDecimal, p []*apd.Decimal, a, b, d int, aux int32) (int, int64) {
		e.Round(p[d], p[a])
		return 0, 0
	},
		func(c *apd.Context, p []*apd.Decimal, a, b, d int, aux int32) (apd.Condition, error, int, int64) {
			r, err := c.Round(p[d], p[a])
			return r, err, 0, 0
		}},
	{"Sqrt", func(e *apd.ErrDecimal, p []*apd.Decimal, a, b, d int, aux int32) (int, int64) {
		e.Sqrt(p[d], p[a])
		return 0, 0
	},
		func(c *apd.Context, p []*apd.Decimal, a, b, d int, aux int32) (apd.Condition, error, int, int64) {
			r, err := c.Sqrt(p[d], p[a])
			return r, err, 0, 0
		}},
	{"Sub", func(e *apd.ErrDecimal, p []*apd.Decimal, a, b, d int, aux int32) (int, int64) {
		e.Sub(p[d], p[a], p[b])
		return 0, 0
	},
		func(c *apd.Context, p []*apd.Decimal, a, b, d int, aux int32) (apd.Condition, error, int, int64) {
			r, err := c.Sub(p[d], p[a], p[b])
			return r, err, 0, 0
		}},
	{"RoundToIntegralValue", func(e *apd.ErrDecimal, p []*apd.Decimal, a, b, d int, aux int32) (int, int64) {
		e.RoundToIntegralValue(p[d], p[a])
		return 0, 0
	},
		func(c *apd.Context, p []*apd.Decimal, a, b, d int, aux int32) (apd.Condition, error, int, int64) {
			r, err := c.RoundToIntegralValue(p[d], p[a])
			return r, err, 0, 0
		}},
	{"RoundToIntegralExact", func(e *apd.ErrDecimal, p []*apd.Decimal, a, b, d int, aux int32) (int, int64) {
		e.RoundToIntegralExact(p[d], p[a])
		return 0, 0
	},
		func(c *apd.Context, p []*apd.Decimal, a, b, d int, aux int32) (apd.Condition, error, int, int64) {
			r, err := c.RoundToIntegralExact(p[d], p[a])
			return r, err, 0, 0
		}},
	{"Int64", func(e *apd.ErrDecimal, p []*apd.Decimal, a, b, d int, aux int32) (int, int64) {
		return 0, e.Int64(p[a])
	},
		func(c *apd.Context, p []*apd.Decimal, a, b, d int, aux int32) (apd.Condition, error, int, int64) {
			v, err := p[a].Int64()
			return 0, err, 0, v
		}},
}

func edSmall(r *rng.R) dec.D {
	switch r.Pick(50, 20, 10, 10, 10) {
	case 0:
		return dec.D{Form: dec.Finite, Neg: r.Bool(), C: big.NewInt(r.Range(0, 99999)), E: r.Range(-4, 3)}
	case 1:
		return dec.FromInt(r.Range(-9, 9), 0)
	case 2:
		return dec.Zero(r.Bool(), r.Range(-2, 2))
	case 3:
		return gen.SpecialValue(r)
	default:
		c, _ := new(big.Int).SetString(gen.Digits(r, int64(10+r.Intn(30))), 10)
		return dec.D{Form: dec.Finite, Neg: r.Bool(), C: c, E: r.Range(-30, 5)}
	}
}

func errDecimalCase(t *mon.T) {
	r := t.Rng
	c := dec.Ctx{P: int64(1 + r.Intn(12)), Emin: -int64(r.Intn(20)), Emax: int64(12 + r.Intn(20)), Mode: gen.Mode(r)}
	traps := randomTraps(r)
	if r.Chance(1, 2) {
		// a trap set that makes an error likely somewhere in the sequence
		traps = []apd.Condition{apd.Inexact, apd.Rounded, apd.Inexact | apd.Rounded, apd.DefaultTraps, apd.Subnormal | apd.Clamped, apd.DefaultTraps | apd.Inexact}[r.Intn(6)]
	}
	ctx := br.Context(c, traps)
	const slots = 5
	ep := make([]*apd.Decimal, slots)
	mp := make([]*apd.Decimal, slots)
	for i := range ep {
		v := edSmall(r)
		ep[i], mp[i] = br.ToApd(v), br.ToApd(v)
	}
	ed := apd.MakeErrDecimal(ctx)
	var mFlags apd.Condition
	var mErr error
	// Err() evaluates the accumulated flags against the *current* trap set of
	// the current Context and remembers a non-nil verdict (sticky).
	modelErr := func() bool {
		if mErr != nil {
			return true
		}
		if _, e := mFlags.GoError(traps); e != nil {
			mErr = e
			return true
		}
		return false
	}
	n := 2 + r.Intn(11)
	trace := []string{}
	hadErrorThenCalls := false
	for step := 0; step < n; step++ {
		// the Context may legitimately be modified, or replaced, between calls
		// (not during one): Err() must follow the current trap set
		if step > 0 && r.Chance(1, 6) {
			traps = randomTraps(r)
			if r.Bool() {
				traps |= singletons[4+r.Intn(3)] // Inexact, Subnormal or Rounded: likely among the accumulated flags
			}
			if r.Bool() {
				ctx.Traps = traps
			} else {
				nc := *ctx
				nc.Traps = traps
				ctx = &nc
				ed.Ctx = ctx
			}
			trace = append(trace, "traps:="+br.FlagNames(traps))
			t.Count("errdecimal-traps-changed")
		}
		st := edSteps[r.Intn(len(edSteps))]
		a, b, d := r.Intn(slots), r.Intn(slots), r.Intn(slots)
		aux := int32(r.Range(-6, 6))
		trace = append(trace, fmt.Sprintf("%s(d=%d,a=%d,b=%d,aux=%d)", st.name, d, a, b, aux))
		var mn int
		var mv int64
		if modelErr() {
			hadErrorThenCalls = true
			// no-op in the model
		} else {
			var res apd.Condition
			var err error
			over, _, pan := budgeted(4000000, func() { res, err, mn, mv = st.dir(ctx, mp, a, b, d, aux) })
			if over != "" || pan != nil {
				t.Fail("non-termination-or-panic", map[string]interface{}{"trace": trace, "ctx": c.String(), "traps": br.FlagNames(traps), "why": fmt.Sprintf("direct call: budget overrun at %q / panic %v", over, pan)})
				return
			}
			mFlags |= res
			mErr = err
		}
		var en int
		var ev int64
		over, _, pan := budgeted(4000000, func() { en, ev = st.ed(&ed, ep, a, b, d, aux) })
		t.Eval()
		if over != "" || pan != nil {
			t.Fail("non-termination-or-panic", map[string]interface{}{"trace": trace, "ctx": c.String(), "traps": br.FlagNames(traps), "why": fmt.Sprintf("ErrDecimal call: budget overrun at %q / panic %v", over, pan)})
			return
		}
		t.Count("errdecimal/" + st.name)
		bad := ""
		if ed.Flags != mFlags {
			bad = fmt.Sprintf("Flags %s, model %s", br.FlagNames(ed.Flags), br.FlagNames(mFlags))
		} else if (ed.Err() != nil) != modelErr() {
			bad = fmt.Sprintf("Err() = %v, model error %v", ed.Err(), modelErr())
		} else if en != mn || ev != mv {
			bad = fmt.Sprintf("return value %d/%d, model %d/%d", en, ev, mn, mv)
		} else {
			for i := range ep {
				if reprOf(ep[i]) != reprOf(mp[i]) {
					bad = fmt.Sprintf("slot %d is %s, model %s", i, br.FromApd(ep[i]), br.FromApd(mp[i]))
					break
				}
			}
		}
		if bad != "" {
			t.Fail("errdecimal-differs-from-context", map[string]interface{}{"trace": trace, "ctx": c.String(), "traps": br.FlagNames(traps), "why": bad})
			return
		}
	}
	if hadErrorThenCalls {
		t.Count("errdecimal-error-then-calls")
		t.Nontrivial(fmt.Sprintf("ed|%s|%d|%v", c, traps, trace))
	}
	if t.WantSample() {
		t.Sample(map[string]interface{}{"errdecimal_trace": trace, "ctx": c.String(), "traps": br.FlagNames(traps), "final_flags": br.FlagNames(ed.Flags), "error": ed.Err() != nil})
	}
}

func pinnedC03(t *mon.T) {
	// fixed: Exp returned (0, nil) under Traps=Inexact; Ln(1.05) never returned under Traps=Inexact
	c := dec.Ctx{P: 5, Emin: -99, Emax: 99, Mode: "half_even"}
	for _, p := range []struct {
		op string
		x  string
	}{{"exp", "15E-1"}, {"ln", "105E-2"}, {"ln", "2E0"}, {"log10", "105E-2"}, {"sqrt", "2E0"}, {"cbrt", "2E0"}} {
		x, _ := dec.Parse(p.x)
		for _, T := range []apd.Condition{apd.Inexact, apd.Rounded, apd.Inexact | apd.Rounded} {
			to := callTrapped(p.op, c, T, x, dec.D{}, 0, "")
			t.Eval()
			t.Count("pinned")
			if to.overrun != "" {
				t.Fail("non-termination", map[string]interface{}{"op": p.op, "x": p.x, "traps": br.FlagNames(T), "why": "loop budget exceeded at " + to.overrun})
			} else if to.o.Err == nil {
				t.Fail("trapped-condition-without-error", map[string]interface{}{"op": p.op, "x": p.x, "traps": br.FlagNames(T), "why": "Inexact/Rounded raised and trapped but error is nil"})
			}
		}
	}
}

func runC03(r *mon.Run) {
	r.Rule = "cases: (op, operands, context) from the shared generators (22 Context operations + context-aware parsing) run with Traps=0 and then " +
		"under the 12 singleton trap sets, DefaultTraps, all-ones and 4 random sets (thorough: all 4096 trap sets for a sample of cases); " +
		"checked: a trapped or system condition => error; nil error => destination and Condition identical to the untrapped run; for the " +
		"single-rounding operations error <=> flags&Traps != 0 or system limit, and result/flags delivered alongside a trap error; every " +
		"call runs under a logical loop-iteration budget (tick hook) in serial child processes, so non-termination under a trap set is a " +
		"deterministic verdict. ErrDecimal: random sequences of its 21 methods mirrored by direct Context calls and a sticky-error model. " +
		"distinct_nontrivial = distinct cases in which a trap actually fired, or sequences with calls after an error."
	r.Assumptions = []string{"relational: the untrapped run of the same call is the oracle", "non-termination is decided as exceeding 2e6+ loop ticks (legitimate calls of these sizes use thousands)",
		"errors that occur with an empty trap set (non-convergence, zero precision) are outside this property"}
	r.Isolated("pinned", 1, 1, 120*time.Second, pinnedC03)
	r.Isolated("traps", r.N(24000, 1500000), 16, 1500*time.Second, func(t *mon.T) { trapCase(t, false) })
	r.Isolated("traps-high-precision", r.N(160, 8000), 16, 3000*time.Second, highPrecisionTrapCase)
	if !r.Quick() {
		r.Isolated("traps-all-4096", 20000, 16, 3000*time.Second, func(t *mon.T) { trapCase(t, true) })
	}
	r.Isolated("errdecimal", r.N(40000, 3000000), 16, 1500*time.Second, errDecimalCase)
	if r.IsChild() {
		return
	}
	for _, op := range append(append([]string{}, allCtxOps...), "parse") {
		r.Require("op/"+op, 100)
	}
	for _, st := range edSteps {
		r.Require("errdecimal/"+st.name, 100)
	}
	r.Require("errdecimal-error-then-calls", 500)
	r.Require("errdecimal-traps-changed", 500)
	r.Require("pinned", 18)
	for _, op := range []string{"exp", "ln", "sqrt", "cbrt", "log10", "pow", "add", "quo", "reduce", "quantize"} {
		r.Require("trap-fired/"+op, 100)
	}
}
