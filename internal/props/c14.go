package props

import (
	"fmt"
	"strings"

	"github.com/cockroachdb/apd/v3"

	"verif/internal/br"
	"verif/internal/dec"
	"verif/internal/gda"
	"verif/internal/gen"
	"verif/internal/mon"
	"verif/internal/rng"
)

func init() {
	register("C14", runC14)
}

// acceptance classifies a string by the recogniser: "must-accept",
// "must-reject".
func acceptance(p gda.Parsed) string {
	if !p.OK {
		return "must-reject"
	}
	if p.Form != dec.Finite {
		return "must-accept"
	}
	if p.ExpOverflow {
		return "must-reject" // the result cannot be within the limits
	}
	nd := int64(len(strings.TrimLeft(p.Digits, "0")))
	if nd == 0 {
		nd = 1
	}
	adj := p.Exp + nd - 1
	resultIn := p.Exp >= gen.MinExp && p.Exp <= gen.MaxExp && adj >= gen.MinExp && adj <= gen.MaxExp
	if !resultIn {
		return "must-reject"
	}
	// The written exponent field or the fraction alone may exceed +/-100000
	// (0.001E+100002 is 1E+99999): only the value's exponent and adjusted
	// exponent count. (Until the parser was repaired - fix bf02b9c - this case
	// was left unconstrained here.)
	return "must-accept"
}

// giantString draws very long grammatical strings: redundant leading zeros,
// all-zero mantissas and maximal-length coefficients (tens to hundreds of
// kilobytes), whose value is still within the limits.
func giantString(r *rng.R) string {
	L := []int{65536, 100001, 131072, 200000, 200001, 200002, 262144, 400000}[r.Intn(8)]
	sign := []string{"", "-", "+"}[r.Intn(3)]
	switch r.Intn(5) {
	case 4: // more significant digits than any Decimal can hold: must be rejected, not crash
		return sign + gen.Digits(r, 1) + strings.Repeat("7", 200100+r.Intn(3000))
	case 0: // zeros only
		return sign + strings.Repeat("0", L)
	case 1: // leading zeros, then a short number
		return sign + strings.Repeat("0", L) + gen.Digits(r, int64(1+r.Intn(6))) + "." + gen.Digits(r, int64(1+r.Intn(3)))
	case 2: // 0 1 000...0 E-100000 style: long significant coefficient with a compensating exponent
		n := L
		if n > 100001 {
			n = 100001
		}
		return sign + "0" + gen.Digits(r, 1) + strings.Repeat("0", n-1) + "E-" + fmt.Sprint(n-1)
	default: // long fraction of zeros
		if r.Bool() {
			// ... whose written exponent compensates it exactly, nearly, or is ten
			// or a hundred times too large (the value is then far out of range)
			z := L/2 + r.Intn(L/2)
			e := int64(z) + r.Range(-100003, 100003)
			switch r.Intn(4) {
			case 0:
				e = e*10 + r.Range(0, 9)
			case 1:
				e = e*100 + r.Range(0, 99)
			}
			if e < 0 {
				e = -e
			}
			return sign + "0." + strings.Repeat("0", z) + gen.Digits(r, int64(1+r.Intn(3))) + "E+" + fmt.Sprint(e)
		}
		return sign + "0." + strings.Repeat("0", L/2) + gen.Digits(r, 3) + "E+" + fmt.Sprint(L/2)
	}
}

// giantFractionString: hundreds of thousands of fraction zeros whose written
// exponent compensates them exactly, nearly, or is ten or a hundred times too
// large (the value is then far out of range and must be rejected).
func giantFractionString(r *rng.R) string {
	z := 100000 + r.Intn(300000)
	target := r.Range(-100003, 100003) // exponent of the value
	e := int64(z) + 1 + target
	switch r.Intn(4) {
	case 0:
		e = e*10 + r.Range(0, 9)
	case 1:
		e = e*100 + r.Range(0, 99)
	}
	if e < 0 {
		e = -e
	}
	lead := ""
	if r.Chance(1, 4) {
		lead = "000"
	}
	return []string{"", "-", "+"}[r.Intn(3)] + "0." + strings.Repeat("0", z) + gen.Digits(r, 1) + "E+" + lead + fmt.Sprint(e)
}

func parseAcceptCase(t *mon.T) {
	parseAcceptString(t, numericString(t.Rng))
}

func parseAcceptString(t *mon.T, s string) {
	r := t.Rng
	_ = r
	p := gda.Recognise(s)
	class := acceptance(p)
	var d1, d2, d3, d4 apd.Decimal
	got, _, e0 := apd.NewFromString(s)
	_, _, e1 := d1.SetString(s)
	e2 := d2.UnmarshalText([]byte(s))
	e3 := d3.Scan(s)
	e4 := d4.Scan([]byte(s))
	t.EvalN(5)
	t.Count("parse/" + class)
	// mutation distance-1 boundary: the neighbour classification is counted
	// as non-trivial when a single-byte edit flips the recogniser's verdict
	if len(s) > 0 {
		alt := s[:len(s)-1]
		if gda.Recognise(alt).OK != p.OK {
			t.Nontrivial("p|" + s)
			t.Count("parse/language-boundary")
		}
	}
	fd := map[string]interface{}{"s": clip(s), "class": class, "NewFromString": fmt.Sprint(e0), "SetString": fmt.Sprint(e1), "UnmarshalText": fmt.Sprint(e2),
		"ScanString": fmt.Sprint(e3), "ScanBytes": fmt.Sprint(e4)}
	acc := e0 == nil
	if (e1 == nil) != acc || (e2 == nil) != acc || (e3 == nil) != acc || (e4 == nil) != acc {
		t.Fail("parsers-disagree", fd)
		return
	}
	switch class {
	case "must-accept":
		if !acc {
			fd["why"] = "grammatical string within the limits rejected"
			t.Fail("parser-rejects-grammatical", fd)
			return
		}
	case "must-reject":
		if acc {
			fd["why"] = "string outside the grammar or the limits accepted"
			fd["got"] = br.FromApd(got).FullString()
			t.Fail("parser-accepts-ungrammatical", fd)
			return
		}
		if !p.OK && got != nil {
			fd["why"] = "failed parse returned a non-nil Decimal"
			t.Fail("parse-partial-value", fd)
		}
		return
	}
	if !acc {
		return
	}
	// accepted: value, form and sign must be the recogniser's
	want := p.Value()
	for name, g := range map[string]*apd.Decimal{"NewFromString": got, "SetString": &d1, "UnmarshalText": &d2, "ScanString": &d3, "ScanBytes": &d4} {
		gd := br.FromApd(g)
		if werr := br.WellFormed(g); werr != nil {
			fd["why"] = name + ": " + werr.Error()
			t.Fail("parse-ill-formed", fd)
			return
		}
		ok := false
		if want.Form == dec.Finite {
			// BaseContext parsing is exact: coefficient and exponent as written
			ok = gd.Form == dec.Finite && gd.Neg == want.Neg && gd.C.Cmp(want.C) == 0 && gd.E == want.E
		} else {
			ok = gd.Form == want.Form && gd.Neg == want.Neg
		}
		if !ok {
			fd["why"] = name + " produced a different value"
			fd["got"] = gd.FullString()
			fd["want"] = want.FullString()
			t.Fail("parse-wrong-value", fd)
			return
		}
	}
	if t.WantSample() {
		t.Sample(map[string]interface{}{"s": clip(s), "class": class, "accepted": acc})
	}
}

// fmtModel applies sign selection, width and padding the way fmt does for
// numbers to the unsigned text body.
func fmtModel(body string, neg, finite bool, plus, space, minus, zero bool, width int, hasWidth bool) string {
	sign := ""
	switch {
	case neg:
		sign = "-"
	case plus:
		sign = "+"
	case space:
		sign = " "
	}
	n := len(sign) + len(body)
	pad := 0
	if hasWidth && width > n {
		pad = width - n
	}
	switch {
	case minus:
		return sign + body + strings.Repeat(" ", pad)
	case zero && finite:
		return sign + strings.Repeat("0", pad) + body
	default:
		return strings.Repeat(" ", pad) + sign + body
	}
}

// floatCalibrate checks the padding model against fmt itself on a float64
// with the same flags; combinations where the model does not reproduce fmt's
// own behaviour on this toolchain are not asserted.
func floatCalibrate(plus, space, minus, zero bool, width int, hasWidth bool) bool {
	flags := ""
	if plus {
		flags += "+"
	}
	if space {
		flags += " "
	}
	if minus {
		flags += "-"
	}
	if zero {
		flags += "0"
	}
	w := ""
	if hasWidth {
		w = fmt.Sprint(width)
	}
	for _, f := range []float64{1.5, -1.5} {
		got := fmt.Sprintf("%"+flags+w+"e", f)
		body := "1.500000e+00"
		if fmtModel(body, f < 0, true, plus, space, minus, zero, width, hasWidth) != got {
			return false
		}
	}
	return true
}

func formatCase(t *mon.T) {
	r := t.Rng
	d := fullRangeDecimal(r, true)
	if d.Form == dec.Finite && abs64(d.E) > 300 {
		d.E %= 300
	}
	a := br.ToApd(d)
	verbs := []byte("eEfFgGvs")
	verb := verbs[r.Intn(len(verbs))]
	plus, space, minus, zero := r.Chance(1, 3), r.Chance(1, 3), r.Chance(1, 3), r.Chance(1, 3)
	hasWidth := r.Chance(3, 4)
	width := r.Intn(31)
	if verb == 'v' || verb == 's' {
		// for %v and %s only width and '-' are checked
		plus, space, zero = false, false, false
	}
	if !floatCalibrate(plus, space, minus, zero, width, hasWidth) {
		t.Skip("fmt-model-not-calibrated")
		return
	}
	flags := ""
	if plus {
		flags += "+"
	}
	if space {
		flags += " "
	}
	if minus {
		flags += "-"
	}
	if zero {
		flags += "0"
	}
	w := ""
	if hasWidth {
		w = fmt.Sprint(width)
	}
	// a precision in the directive (users write %012.2f out of habit): Format
	// documents that it has no effect, so everything else must stay as it is
	prec := ""
	if r.Chance(1, 4) {
		prec = fmt.Sprintf(".%d", r.Intn(20))
	}
	format := "%" + flags + w + prec + string(verb)
	got := fmt.Sprintf(format, a)
	t.Eval()
	t.Count("format/" + string(verb))
	t.Nontrivial(fmt.Sprintf("F|%s|%s", format, d.FullString()))
	tv := verb
	switch verb {
	case 'F':
		tv = 'f'
	case 'v', 's':
		tv = 'G'
	}
	body := a.Text(tv)
	body = strings.TrimPrefix(body, "-")
	want := fmtModel(body, d.Neg, d.Form == dec.Finite, plus, space, minus, zero, width, hasWidth)
	if got != want {
		t.Fail("format-mismatch", map[string]interface{}{"format": format, "d": d.FullString(), "got": got, "want": want})
	}
	if t.WantSample() {
		t.Sample(map[string]interface{}{"format": format, "d": d.String(), "output": got})
	}
}

func stringCase(t *mon.T) {
	d := fullRangeDecimal(t.Rng, false)
	a := br.ToApd(d)
	got := a.String()
	t.Eval()
	t.Count("string/" + d.Form.String())
	if d.Form == dec.Finite {
		adj := d.Adj()
		switch {
		case d.C.Sign() == 0 && d.E < 0 && d.E >= -2003:
			t.Count("string/zero-exception-zone")
		case adj >= -8 && adj <= -4:
			t.Count("string/adjusted-switch-zone")
		case d.E >= -1 && d.E <= 1:
			t.Count("string/exponent-switch-zone")
		}
	}
	t.Nontrivial("s|" + d.FullString())
	if want := gda.SciString(d); got != want {
		t.Fail("string-not-scientific", map[string]interface{}{"d": d.FullString(), "got": clip(got), "want": clip(want)})
	}
	// Text('G') and %v are the same form
	if g := a.Text('G'); g != got {
		t.Fail("string-not-scientific", map[string]interface{}{"d": d.FullString(), "got": clip(g), "want": clip(got), "why": "Text('G') differs from String"})
	}
}

func pinnedC14(t *mon.T) {
	for _, c := range []struct {
		s   string
		acc bool
	}{{".-5", false}, {".+5", false}, {"nansnan", false}, {"NaN12345678901234567890123", true}, {"İnf", false}, {"-.5", true}, {"1.", true}, {"+.5e-3", true},
		{"sNaN", true}, {"-sNaN007", true}, {"inFinitY", true}, {"infinit", false}, {"1e", false}, {"1e+", false}, {"e5", false}, {".", false}, {"", false},
		{"1_0", false}, {" 1", false}, {"1 ", false}, {"0x10", false}, {"1e1.5", false}, {"--1", false}, {"+-1", false}, {"1E100000", true}, {"10E100000", false},
		{"1E-100000", true}, {"0.1E-100000", false}, {"NaN-1", false}, {"nan+", false}} {
		_, _, err := apd.NewFromString(c.s)
		t.Eval()
		t.Count("pinned")
		if (err == nil) != c.acc {
			t.Fail("parser-acceptance", map[string]interface{}{"s": c.s, "accepted": err == nil, "want_accepted": c.acc})
		}
		if p := gda.Recognise(c.s); (acceptance(p) == "must-accept") != c.acc {
			t.Fail("recogniser-self-check", map[string]interface{}{"s": c.s, "class": acceptance(p), "want_accepted": c.acc})
		}
	}
	// %-010G: '-' overrides '0'
	d := apd.New(123, 54)
	if got := fmt.Sprintf("%-010G", d); got != "1.23E+56  " {
		t.Fail("format-mismatch", map[string]interface{}{"format": "%-010G", "got": got, "want": "1.23E+56  "})
	}
	t.Count("pinned")
}

// wordsC14: what other notations write where a number is expected. None of
// it is in the grammar except where the recogniser says so; all five entry
// points must agree with it (a parser that quietly ignores "null" leaves the
// destination's previous value in place).
var wordsC14 = []string{"null", "NULL", "Null", "nil", "none", "None", "undefined", "true", "false", "NA", "N/A", "n/a", "-", "+", "~", "?", "#N/A",
	"NaN()", "nan(123)", "nan(ind)", "qnan", "QNaN", "inf.", "Inf0", "infinity1", "+infinite", "INFINIT", "1.#INF", "1.#QNAN", "-1.#IND",
	"\u221e", "-\u221e", "1,5", "1,000", "1'000", "1 000", "\u0661\u0662\u0663", "\uff11\uff12\uff13", "0b1", "0o7", "0x1p3", "1f", "1d", "1L", "1n", "1e5f", "1m",
	"\x00", "1\x00", "\x001", "1\n", "1\r\n", "\t1", "\"1\"", "'1'", "[1]", "{}", "()", "(1)", "1%", "$1", "\u22121", "\u00b11", "1e\u22125", "1\u00d710^5", "1*10^5",
	"1e+-5", "1E 5", "1 E5", "1.2.3", "..1", "1..", "0.", ".0", "00", "-00.00", "+.0E+0", "1e0000000000000000000005", "1e-0000000000000000000005",
	"snan0x1", "sNaN-", "NaNsNaN", "nannan", "infinf", "infinityinfinity", "-infinity-", "i", "in", "na", "sn", "sna", "s", "e", "E", "-e", ".e1", "-.e1"}

func runC14(r *mon.Run) {
	r.Rule = "String(): Decimals over the whole exponent range with dense sampling at the plain/scientific switch-over points and the zero " +
		"exception, compared with an independent to-scientific-string writer. Parsing: sentences generated from the grammar (all optional " +
		"parts toggled, long digit runs, payloads, mixed case, exponents at the +/-100000 limits; a few strings of 64 KB to 400 KB with redundant zeros), single-byte insert/delete/replace/" +
		"duplicate/swap mutations of them, fragment concatenations and random bytes, and a list of what other notations write where a number is expected (null, nil, true, N/A, 1,000, 0x1p3, non-ASCII digits and signs, ...); NewFromString, SetString, UnmarshalText and " +
		"Scan(string/[]byte) must agree with each other and with an independent DFA recogniser (must-accept / must-reject), " +
		"and accepted strings must yield the recogniser's value. Format: verbs e E f F g G v s with flag subsets of {+,space,-,0} and " +
		"widths 0..30 against a padding model that is calibrated against fmt's own float64 output at run time. distinct_nontrivial = " +
		"distinct strings at edit distance 1 from the language boundary, distinct formatted (format, value) pairs and values."
	r.Assumptions = []string{"the recogniser in internal/gda is a faithful transcription of the GDA numeric-string grammar",
		"a value is within the limits when both its exponent and its adjusted exponent are (the written exponent field and the fraction length may each exceed 100000)",
		"for %v and %s only width and '-' are asserted"}
	r.Serial("pinned", pinnedC14)
	r.Parallel("string", r.N(150000, 15000000), stringCase)
	r.Parallel("parse", r.N(300000, 30000000), parseAcceptCase)
	r.Parallel("parse-giant", r.N(24, 600), func(t *mon.T) {
		parseAcceptString(t, giantString(t.Rng))
		t.Count("parse/giant")
	})
	r.Parallel("parse-giant-fraction", r.N(80, 4000), func(t *mon.T) {
		parseAcceptString(t, giantFractionString(t.Rng))
		t.Count("parse-giant-fraction")
	})
	r.Require("parse-giant-fraction", 60)
	r.Parallel("parse-words", int64(len(wordsC14)), func(t *mon.T) {
		parseAcceptString(t, wordsC14[t.Index])
		t.Count("parse/words")
	})
	r.Require("parse/words", int64(len(wordsC14)))
	r.Parallel("format", r.N(150000, 10000000), formatCase)
	for _, cl := range []string{"parse/must-accept", "parse/must-reject", "parse/language-boundary", "string/zero-exception-zone", "string/adjusted-switch-zone",
		"string/exponent-switch-zone", "format/e", "format/f", "format/G", "format/v", "format/s", "format/F"} {
		r.Require(cl, 500)
	}
	r.Require("pinned", 31)
}
