package props

import (
	"github.com/cockroachdb/apd/v3"

	"verif/internal/br"
	"verif/internal/dec"
)

// Alias patterns for a call d = op(x, y).
const (
	AliasDistinct = iota
	AliasDX       // d == x
	AliasDY       // d == y
	AliasXY       // x == y (same object), d distinct
	AliasDXY      // d == x == y
)

var aliasNames = []string{"distinct", "d==x", "d==y", "x==y", "d==x==y"}

// CallAliased runs op with the given aliasing pattern. dpre, if non-nil, is
// the previous content of a distinct destination. It returns the outcome and
// the operand objects after the call (for operand-unchanged checks; nil when
// the operand was the destination).
func CallAliased(op string, ctx *apd.Context, x, y dec.D, aux int64, pattern int, dpre *dec.D) (o Outcome, xAfter, yAfter *apd.Decimal) {
	ax := br.ToApd(x)
	var ay *apd.Decimal
	binary := y.C != nil
	if binary {
		ay = br.ToApd(y)
	}
	d := new(apd.Decimal)
	if dpre != nil {
		br.SetApd(d, *dpre)
	}
	switch pattern {
	case AliasDX:
		d = ax
	case AliasDY:
		d = ay
	case AliasXY:
		ay = ax
	case AliasDXY:
		ay = ax
		d = ax
	}
	res, err := callOn(op, ctx, d, ax, ay, aux)
	o = Outcome{Res: br.FromApd(d), Flags: res, Err: err, Raw: d}
	if d != ax {
		xAfter = ax
	}
	if binary && d != ay && ay != ax {
		yAfter = ay
	}
	return
}

// callOn runs op on the given objects.
func callOn(op string, ctx *apd.Context, d, ax, ay *apd.Decimal, aux int64) (apd.Condition, error) {
	var res apd.Condition
	var err error
	switch op {
	case "add":
		res, err = ctx.Add(d, ax, ay)
	case "sub":
		res, err = ctx.Sub(d, ax, ay)
	case "mul":
		res, err = ctx.Mul(d, ax, ay)
	case "quo":
		res, err = ctx.Quo(d, ax, ay)
	case "quoint":
		res, err = ctx.QuoInteger(d, ax, ay)
	case "rem":
		res, err = ctx.Rem(d, ax, ay)
	case "pow":
		res, err = ctx.Pow(d, ax, ay)
	case "cmp":
		res, err = ctx.Cmp(d, ax, ay)
	case "abs":
		res, err = ctx.Abs(d, ax)
	case "neg":
		res, err = ctx.Neg(d, ax)
	case "round":
		res, err = ctx.Round(d, ax)
	case "quantize":
		res, err = ctx.Quantize(d, ax, int32(aux))
	case "rtie":
		res, err = ctx.RoundToIntegralExact(d, ax)
	case "rtiv":
		res, err = ctx.RoundToIntegralValue(d, ax)
	case "ceil":
		res, err = ctx.Ceil(d, ax)
	case "floor":
		res, err = ctx.Floor(d, ax)
	case "reduce":
		_, res, err = ctx.Reduce(d, ax)
	case "sqrt":
		res, err = ctx.Sqrt(d, ax)
	case "cbrt":
		res, err = ctx.Cbrt(d, ax)
	case "exp":
		res, err = ctx.Exp(d, ax)
	case "ln":
		res, err = ctx.Ln(d, ax)
	case "log10":
		res, err = ctx.Log10(d, ax)
	default:
		panic("CallAliased: " + op)
	}
	return res, err
}
