package props

import (
	"fmt"
	"math/big"

	"github.com/cockroachdb/apd/v3"

	"verif/internal/br"
	"verif/internal/dec"
	"verif/internal/gen"
	"verif/internal/mon"
	"verif/internal/rng"
)

func init() {
	register("C11", runC11)
}

// icbrtFloor returns floor(cbrt(n)) for n >= 0 (Newton on big.Int with a
// final correction, verified by s^3 <= n < (s+1)^3).
func icbrtFloor(n *big.Int) *big.Int {
	if n.Sign() == 0 {
		return new(big.Int)
	}
	// initial estimate 2^ceil(bitlen/3)
	s := new(big.Int).Lsh(bOne, uint((n.BitLen()+2)/3))
	three := big.NewInt(3)
	for {
		// t = (2s + n/s^2)/3
		s2 := new(big.Int).Mul(s, s)
		t := new(big.Int).Quo(n, s2)
		t.Add(t, new(big.Int).Lsh(s, 1))
		t.Quo(t, three)
		if t.Cmp(s) >= 0 {
			break
		}
		s = t
	}
	cube := func(v *big.Int) *big.Int { return new(big.Int).Mul(new(big.Int).Mul(v, v), v) }
	for cube(s).Cmp(n) > 0 {
		s.Sub(s, bOne)
	}
	for cube(new(big.Int).Add(s, bOne)).Cmp(n) <= 0 {
		s.Add(s, bOne)
	}
	return s
}

// cubeD returns d^3 exactly for finite d >= 0.
func cubeD(d dec.D) dec.D {
	c := new(big.Int).Mul(new(big.Int).Mul(d.C, d.C), d.C)
	return dec.D{Form: dec.Finite, C: c, E: 3 * d.E}
}

// cbrtCase checks Cbrt(x): within one unit in the last place of the exact
// cube root; exact with no Inexact for perfect cubes whose root fits.
func cbrtCase(t *mon.T, which string, c dec.Ctx, x dec.D) {
	o := CallArith("cbrt", br.Context(c, 0), x, dec.D{})
	t.Eval()
	if x.IsZero() || c.P == 0 {
		t.Skip("zero-or-p0")
		return
	}
	if nearSystemLimit(x.E, x.Adj()) {
		t.Skip("near-system-limit")
		return
	}
	if o.Err != nil {
		cls := ""
		t.FailClass("unexpected-error", cls, detail("cbrt", c, x, dec.D{}, o, "error with empty trap set"))
		return
	}
	t.Count("op/cbrt")
	if which == "fit" {
		if why := CheckFit(c, o); why != "" {
			t.Fail("fit-mismatch", detail("cbrt", c, x, dec.D{}, o, why))
		}
		return
	}
	if why := CheckImplications(o); why != "" {
		t.Fail("flags-mismatch", detail("cbrt", c, x, dec.D{}, o, why))
		return
	}
	// normalise the exponent to a multiple of 3
	C, E := x.C, x.E
	for ((E%3)+3)%3 != 0 {
		C = new(big.Int).Mul(C, bTen)
		E--
	}
	s := icbrtFloor(C)
	perfect := new(big.Int).Mul(new(big.Int).Mul(s, s), s).Cmp(C) == 0
	adjRoot := dec.NumDigits(s) - 1 + E/3
	if perfect {
		root := dec.D{Form: dec.Finite, Neg: x.Neg, C: s, E: E / 3}
		// strip trailing zeros to count significant digits
		sig := new(big.Int).Set(s)
		for sig.Sign() != 0 && new(big.Int).Mod(sig, bTen).Sign() == 0 {
			sig.Quo(sig, bTen)
		}
		fits := dec.NumDigits(sig) <= c.P && adjRoot <= c.Emax && adjRoot >= c.Emin
		if fits {
			t.Count("class/perfect-cube")
			t.Nontrivial(fmt.Sprintf("cbrt|%s|%s", c, x.FullString()))
			if which == "exact-flags" {
				if exact := dec.SameValue(o.Res, root); exact == (o.Flags&apd.Inexact != 0) {
					d := detail("cbrt", c, x, dec.D{}, o, "Inexact must be raised exactly when the returned value differs from the exact root")
					d["exact_root"] = root.FullString()
					t.Fail("flags-mismatch", d)
				}
				return
			}
			if !dec.SameValue(o.Res, root) {
				d := detail("cbrt", c, x, dec.D{}, o, "perfect cube whose root fits the precision not returned exactly")
				d["expected"] = root.FullString()
				t.Fail("value-mismatch", d)
			} else if o.Flags&apd.Inexact != 0 {
				d := detail("cbrt", c, x, dec.D{}, o, "perfect cube flagged Inexact")
				t.Fail("flags-mismatch", d)
			}
			return
		}
	}
	if which == "exact-flags" {
		return
	}
	if o.Res.Form != dec.Finite {
		if adjRoot >= c.Emax {
			t.Skip("cbrt-overflow-edge")
			return
		}
		t.Fail("value-mismatch", detail("cbrt", c, x, dec.D{}, o, "non-finite result for a root inside the range"))
		return
	}
	if o.Res.Neg != x.Neg && o.Res.C.Sign() != 0 {
		t.Fail("value-mismatch", detail("cbrt", c, x, dec.D{}, o, "wrong sign"))
		return
	}
	// unit in the last place
	adj := adjRoot
	if o.Res.C.Sign() != 0 && o.Res.Adj() > adj {
		adj = o.Res.Adj()
	}
	q := adj - c.P + 1
	if et := c.Etiny(); q < et {
		q = et
	}
	u := dec.D{Form: dec.Finite, C: big.NewInt(1), E: q}
	R := dec.D{Form: dec.Finite, C: o.Res.C, E: o.Res.E}
	loE := dec.AddExact(R, u, true)
	hiE := dec.AddExact(R, u, false)
	ax := dec.D{Form: dec.Finite, C: x.C, E: x.E}
	ok := true
	if !loE.Neg && loE.Num.Sign() > 0 {
		lo := dec.D{Form: dec.Finite, C: loE.Num, E: loE.E}
		if dec.CmpAbs(cubeD(lo), ax) > 0 {
			ok = false
		}
	}
	hi := dec.D{Form: dec.Finite, C: hiE.Num, E: hiE.E}
	if dec.CmpAbs(cubeD(hi), ax) < 0 {
		ok = false
	}
	t.Count("class/cbrt-inexact")
	t.Nontrivial(fmt.Sprintf("cbrt|%s|%s", c, x.FullString()))
	if !ok {
		d := detail("cbrt", c, x, dec.D{}, o, fmt.Sprintf("more than one unit (10^%d) from the exact cube root", q))
		t.Fail("value-mismatch", d)
	}
	if t.WantSample() {
		t.Sample(map[string]interface{}{"op": "cbrt", "ctx": c.String(), "x": x.String(), "result": o.Res.String(), "flags": br.FlagNames(o.Flags)})
	}
}

func cbrtOperand(r *rng.R, c dec.Ctx) dec.D {
	x := gen.Finite(r, c)
	if abs64(x.E) > 400 && r.Chance(1, 2) {
		x.E = x.E % 400
	}
	if x.IsZero() {
		x.C = big.NewInt(int64(1 + r.Intn(999)))
	}
	switch r.Pick(45, 30, 25) {
	case 0:
	case 1: // perfect cube
		root := gen.Coeff(r, c.P)
		if dec.NumDigits(root) > c.P+2 {
			root = big.NewInt(int64(1 + r.Intn(999)))
		}
		x.C = new(big.Int).Mul(new(big.Int).Mul(root, root), root)
		x.E = 3 * r.Range(-15, 15)
	case 2: // neighbour of a perfect cube
		root := gen.Coeff(r, c.P)
		x.C = new(big.Int).Mul(new(big.Int).Mul(root, root), root)
		if r.Bool() {
			x.C.Add(x.C, bOne)
		} else if x.C.Cmp(bOne) > 0 {
			x.C.Sub(x.C, bOne)
		}
		x.E = r.Range(-40, 40)
	}
	return x
}

// sqrtHardOperand constructs operands whose root is adjacent to a tie or to
// a representable value: x = r^2 +/- k with r a (p+1)-digit number ending in
// 5, or a p-digit number.
func sqrtHardOperand(r *rng.R, c dec.Ctx) dec.D {
	p := c.P
	var root *big.Int
	if r.Bool() {
		s := gen.Digits(r, p) + "5"
		root, _ = new(big.Int).SetString(s, 10)
	} else {
		root, _ = new(big.Int).SetString(gen.Digits(r, p), 10)
	}
	sq := new(big.Int).Mul(root, root)
	k := big.NewInt(int64(r.Intn(4)))
	if r.Bool() {
		sq.Add(sq, k)
	} else if sq.Cmp(k) > 0 {
		sq.Sub(sq, k)
	}
	return dec.D{Form: dec.Finite, C: sq, E: 2*r.Range(-20, 20) - int64(r.Intn(2))}
}

var sqrtWitnessCtx = dec.Ctx{P: 11, Emin: -383, Emax: 384, Mode: "half_even"}
var sqrtWitnessX = dec.D{Form: dec.Finite, C: big.NewInt(99999999999), E: -21}

func registerSqrtWitness(r *mon.Run) {
	id := "KF-C11-sqrt-hard-cases"
	for _, f := range r.Findings() {
		if f.Class == "sqrt_root_within_guard_of_boundary" {
			id = f.ID
		}
	}
	r.Witness(id, func() (bool, string) {
		m, _ := ModelSqrt(sqrtWitnessCtx, sqrtWitnessX)
		o := CallArith("sqrt", br.Context(sqrtWitnessCtx, 0), sqrtWitnessX, dec.D{})
		bad := CheckValue(m, o) != "" || CheckFlags(m, o) != ""
		return bad, fmt.Sprintf("Sqrt(%s) at %s returned %s [%s], exact root rounded half-even is %s", sqrtWitnessX, sqrtWitnessCtx, o.Res, br.FlagNames(o.Flags), m.Res)
	})
}

// perfectCubeVolumeCase: see the comment at its registration in runC11 (also
// registered by C02: a perfect cube whose root fits must not be flagged Inexact).
func perfectCubeVolumeCase(t *mon.T) { perfectCubeVolume(t, "value") }

// perfectCubeFlagsCase is the C02 reading: Inexact exactly when the returned
// value is not the exact root (the value itself is C11's business).
func perfectCubeFlagsCase(t *mon.T) { perfectCubeVolume(t, "exact-flags") }

func perfectCubeVolume(t *mon.T, which string) {
	rr := t.Rng
	c := gen.Context(rr)
	c.P = int64(1 + rr.Intn(24))
	if rr.Chance(1, 8) {
		c.P = int64(25 + rr.Intn(20))
	}
	nd := int64(1 + rr.Intn(int(c.P)))
	var root *big.Int
	switch rr.Intn(4) {
	case 0, 1: // 1.00x: 10^(nd-1) plus something short
		root = new(big.Int).Set(dec.Pow10(nd - 1))
		k := int64(1 + rr.Intn(int(nd)))
		add, _ := new(big.Int).SetString(gen.Digits(rr, k), 10)
		root.Add(root, add.Mod(add, new(big.Int).Add(dec.Pow10(nd-1), bOne)))
	case 2: // 9.99x
		root = new(big.Int).Set(dec.Pow10(nd))
		k := int64(1 + rr.Intn(int(nd)))
		sub, _ := new(big.Int).SetString(gen.Digits(rr, k), 10)
		root.Sub(root, sub.Mod(sub, dec.Pow10(nd-1)))
		root.Sub(root, bOne)
	default:
		root, _ = new(big.Int).SetString(gen.Digits(rr, nd), 10)
	}
	if root.Sign() <= 0 {
		root = big.NewInt(1 + int64(rr.Intn(999)))
	}
	e := 3 * rr.Range(-12, 12)
	if c.Emax < 60 {
		c.Emax = 60 + c.P
	}
	if c.Emin > -60 {
		c.Emin = -60
	}
	x := dec.D{Form: dec.Finite, Neg: rr.Bool(), C: new(big.Int).Mul(new(big.Int).Mul(root, root), root), E: e}
	cbrtCase(t, which, c, x)
	t.Count("cbrt/perfect-cube-volume")
}

func runC11(r *mon.Run) {
	r.Rule = "cases: Sqrt and Cbrt on random operands of 1..3p digits with odd/even exponents, perfect squares/cubes and their +/-1 " +
		"neighbours, constructed hard cases x = r^2 +/- k with r adjacent to a tie or to a representable value, and a stratum at precisions of 16000..45000 digits and around 65536. Sqrt oracle: " +
		"integer square root with exact remainder comparison, rounded half-even once; Cbrt oracle: integer cube root, result within one " +
		"unit checked by exact cubes (R-u)^3 <= x <= (R+u)^3. distinct_nontrivial = distinct (op,context,x) whose root is inexact or a " +
		"perfect cube that fits."
	r.Assumptions = []string{"math/big is correct", "Sqrt cases inside the hard-case class of known finding KF-C11-sqrt-hard-cases are attributed to it"}
	registerSqrtWitness(r)
	r.Parallel("sqrt", r.N(120000, 8000000), func(t *mon.T) {
		c := gen.Context(t.Rng)
		sqrtCase(t, "value,flags,fit", c, sqrtOperand(t.Rng, c))
	})
	r.Parallel("sqrt-hard", r.N(40000, 3000000), func(t *mon.T) {
		c := gen.Context(t.Rng)
		if c.P > 40 {
			c.P = 40
		}
		sqrtCase(t, "value,flags,fit", c, sqrtHardOperand(t.Rng, c))
	})
	r.Parallel("cbrt", r.N(60000, 4000000), func(t *mon.T) {
		c := gen.Context(t.Rng)
		if c.P > 40 {
			c.P = 40
		}
		cbrtCase(t, "value", c, cbrtOperand(t.Rng, c))
	})
	// perfect cubes in volume: whether the iteration lands on the root exactly
	// depends on the particular root and precision (one pair in 10^5 or fewer
	// behaves differently from its neighbours), most often for roots just
	// above a power of ten; so many roots, at every precision from their own
	// length up, rather than a few boundary shapes
	r.Parallel("cbrt-perfect-cubes", r.N(400000, 20000000), perfectCubeVolumeCase)
	r.Require("cbrt/perfect-cube-volume", 300000)
	r.Parallel("sqrt-huge-precision", r.N(200, 6000), func(t *mon.T) {
		// working precisions in the tens of thousands of digits (an
		// implementation may switch algorithms by size): short operands whose root
		// fills the whole precision, and operands of tens of thousands of digits
		rr := t.Rng
		p := []int64{16383, 16384, 20010, 32766, 32767, 32768, 32795, 40000, 65535, 65536, 65537, 70001}[rr.Intn(12)]
		if rr.Bool() {
			p = rr.Range(16000, 45000)
			if rr.Chance(1, 4) {
				p = rr.Range(65000, 72000)
			}
		}
		c := dec.Ctx{P: p, Emin: -100000, Emax: 100000, Mode: gen.Mode(rr)}
		x := dec.D{Form: dec.Finite, C: big.NewInt(rr.Range(2, 999)), E: rr.Range(-3, 3)}
		if rr.Chance(1, 3) {
			cf, _ := new(big.Int).SetString(gen.Digits(rr, rr.Range(30000, 70000)), 10)
			x = dec.D{Form: dec.Finite, C: cf, E: -rr.Range(0, 40000)}
		}
		sqrtCase(t, "value,flags,fit", c, x)
		t.Count("sqrt/huge-precision")
	})
	r.Require("sqrt/huge-precision", 150)
	r.Serial("pinned", func(t *mon.T) {
		// fixed: perfect cube of a 14-digit root at p=14 was flagged Inexact
		root, _ := new(big.Int).SetString("12345678901234", 10)
		x := dec.D{Form: dec.Finite, C: new(big.Int).Mul(new(big.Int).Mul(root, root), root), E: 0}
		cbrtCase(t, "value", dec.Ctx{P: 14, Emin: -99, Emax: 99, Mode: "half_even"}, x)
		t.Count("pinned")
		// fixed: Cbrt did not converge at Precision 1 or 2 with exponents in the thousands
		for _, w := range []struct {
			c int64
			e int64
			p int64
		}{{95, -65003, 1}, {1, -42688, 1}, {170, -81343, 1}, {8, -77890, 1}, {27, 99000, 2}, {64, -99000, 2}} {
			cbrtCase(t, "value", dec.Ctx{P: w.p, Emin: -100000, Emax: 100000, Mode: "half_up"}, dec.D{Form: dec.Finite, Neg: w.c%2 == 1, C: big.NewInt(w.c), E: w.e})
			t.Count("pinned")
		}
		// fixed: Cbrt(4.913E-9) at p=3 under RoundCeiling returned 0.00171 (exact root 0.0017)
		for _, m := range []string{"ceiling", "up", "05up", "floor"} {
			for _, neg := range []bool{false, true} {
				cbrtCase(t, "value", dec.Ctx{P: 3, Emin: -9, Emax: 9, Mode: m}, dec.D{Form: dec.Finite, Neg: neg, C: big.NewInt(4913000), E: -15})
				t.Count("pinned")
			}
		}
	})
	for _, cl := range []string{"class/exact-root", "class/inexact-root", "class/perfect-cube", "class/cbrt-inexact", "sqrt/hard-case"} {
		r.Require(cl, 100)
	}
}
