package props

import "verif/internal/mon"

// Registry maps property ids to their monitors.
var Registry = map[string]func(r *mon.Run){}

func register(id string, fn func(r *mon.Run)) { Registry[id] = fn }
