package props

import (
	"fmt"
	"math"
	"reflect"
	"sort"
	"strings"

	"github.com/cockroachdb/apd/v3"

	"verif/internal/br"
	"verif/internal/mon"
	"verif/internal/rng"
)

// The exported method sets at the pinned commit. The hand-written entry points
// of C04 cover these. A method that reflection finds on one of the package's
// exported types and that is NOT in this snapshot is new API surface: it is an
// exported method all the same, so C04 covers it, and it is driven generically
// (arguments built from its parameter types) under recover().
const apiSnapshot = "*apd.BigInt.Abs *apd.BigInt.Add *apd.BigInt.And *apd.BigInt.AndNot *apd.BigInt.Append *apd.BigInt.Binomial *apd.BigInt.Bit *apd.BigInt.BitLen " +
	"*apd.BigInt.Bits *apd.BigInt.Bytes *apd.BigInt.Cmp *apd.BigInt.CmpAbs *apd.BigInt.Div *apd.BigInt.DivMod *apd.BigInt.Exp *apd.BigInt.FillBytes " +
	"*apd.BigInt.Format *apd.BigInt.GCD *apd.BigInt.GobDecode *apd.BigInt.GobEncode *apd.BigInt.Int64 *apd.BigInt.IsInt64 *apd.BigInt.IsUint64 " +
	"*apd.BigInt.Lsh *apd.BigInt.MarshalJSON *apd.BigInt.MarshalText *apd.BigInt.MathBigInt *apd.BigInt.Mod *apd.BigInt.ModInverse *apd.BigInt.ModSqrt " +
	"*apd.BigInt.Mul *apd.BigInt.MulRange *apd.BigInt.Neg *apd.BigInt.Not *apd.BigInt.Or *apd.BigInt.ProbablyPrime *apd.BigInt.Quo *apd.BigInt.QuoRem " +
	"*apd.BigInt.Rand *apd.BigInt.Rem *apd.BigInt.Rsh *apd.BigInt.Scan *apd.BigInt.Set *apd.BigInt.SetBit *apd.BigInt.SetBits *apd.BigInt.SetBytes " +
	"*apd.BigInt.SetInt64 *apd.BigInt.SetMathBigInt *apd.BigInt.SetString *apd.BigInt.SetUint64 *apd.BigInt.Sign *apd.BigInt.Size *apd.BigInt.Sqrt " +
	"*apd.BigInt.String *apd.BigInt.Sub *apd.BigInt.Text *apd.BigInt.TrailingZeroBits *apd.BigInt.Uint64 *apd.BigInt.UnmarshalJSON " +
	"*apd.BigInt.UnmarshalText *apd.BigInt.VerifRepr *apd.BigInt.Xor *apd.Context.Abs *apd.Context.Add *apd.Context.Cbrt *apd.Context.Ceil *apd.Context.Cmp " +
	"*apd.Context.Exp *apd.Context.Floor *apd.Context.Ln *apd.Context.Log10 *apd.Context.Mul *apd.Context.Neg *apd.Context.NewFromString *apd.Context.Pow " +
	"*apd.Context.Quantize *apd.Context.Quo *apd.Context.QuoInteger *apd.Context.Reduce *apd.Context.Rem *apd.Context.Round " +
	"*apd.Context.RoundToIntegralExact *apd.Context.RoundToIntegralValue *apd.Context.SetString *apd.Context.Sqrt *apd.Context.Sub " +
	"*apd.Context.WithPrecision *apd.Decimal.Abs *apd.Decimal.Append *apd.Decimal.Cmp *apd.Decimal.CmpTotal *apd.Decimal.Compose *apd.Decimal.Decompose " +
	"*apd.Decimal.Float64 *apd.Decimal.Format *apd.Decimal.Int64 *apd.Decimal.IsZero *apd.Decimal.MarshalText *apd.Decimal.Modf *apd.Decimal.Neg " +
	"*apd.Decimal.NumDigits *apd.Decimal.Reduce *apd.Decimal.Scan *apd.Decimal.Set *apd.Decimal.SetFinite *apd.Decimal.SetFloat64 *apd.Decimal.SetInt64 " +
	"*apd.Decimal.SetString *apd.Decimal.Sign *apd.Decimal.Size *apd.Decimal.String *apd.Decimal.Text *apd.Decimal.UnmarshalText *apd.Decimal.Value " +
	"*apd.ErrDecimal.Abs *apd.ErrDecimal.Add *apd.ErrDecimal.Ceil *apd.ErrDecimal.Err *apd.ErrDecimal.Exp *apd.ErrDecimal.Floor *apd.ErrDecimal.Int64 " +
	"*apd.ErrDecimal.Ln *apd.ErrDecimal.Log10 *apd.ErrDecimal.Mul *apd.ErrDecimal.Neg *apd.ErrDecimal.Pow *apd.ErrDecimal.Quantize *apd.ErrDecimal.Quo " +
	"*apd.ErrDecimal.QuoInteger *apd.ErrDecimal.Reduce *apd.ErrDecimal.Rem *apd.ErrDecimal.Round *apd.ErrDecimal.RoundToIntegralExact " +
	"*apd.ErrDecimal.RoundToIntegralValue *apd.ErrDecimal.Sqrt *apd.ErrDecimal.Sub *apd.NullDecimal.Scan *apd.NullDecimal.Value apd.Condition.Any " +
	"apd.Condition.Clamped apd.Condition.DivisionByZero apd.Condition.DivisionImpossible apd.Condition.DivisionUndefined apd.Condition.GoError " +
	"apd.Condition.Inexact apd.Condition.InvalidOperation apd.Condition.Overflow apd.Condition.Rounded apd.Condition.String apd.Condition.Subnormal " +
	"apd.Condition.SystemOverflow apd.Condition.SystemUnderflow apd.Condition.Underflow apd.Decimal.Value apd.Form.String apd.NullDecimal.Value " +
	"apd.Rounder.Round apd.Rounder.ShouldAddOne"

var apiKnown = func() map[string]bool {
	m := map[string]bool{}
	for _, n := range strings.Fields(apiSnapshot) {
		m[n] = true
	}
	return m
}()

func apiReceivers(r *rng.R) []reflect.Value {
	c := hostileContext(r)
	ctx := br.Context(c, randomTraps(r))
	d := br.ToApd(hostileDecimal(r, c, false))
	b := new(apd.BigInt).SetMathBigInt(bigValue(r))
	ed := apd.MakeErrDecimal(ctx)
	nd := &apd.NullDecimal{Decimal: *br.ToApd(hostileDecimal(r, c, false)), Valid: r.Bool()}
	return []reflect.Value{
		reflect.ValueOf(d), reflect.ValueOf(*d), reflect.ValueOf(b), reflect.ValueOf(ctx), reflect.ValueOf(*ctx),
		reflect.ValueOf(&ed), reflect.ValueOf(ed), reflect.ValueOf(apd.Condition(r.U64()) & br.AllFlags), reflect.ValueOf(apd.Form(int8(r.Intn(5)))),
		reflect.ValueOf(apd.Rounder(c.Mode)), reflect.ValueOf(nd), reflect.ValueOf(*nd),
	}
}

var (
	tDecimalPtr = reflect.TypeOf((*apd.Decimal)(nil))
	tBigIntPtr  = reflect.TypeOf((*apd.BigInt)(nil))
	tContextPtr = reflect.TypeOf((*apd.Context)(nil))
	tBytes      = reflect.TypeOf([]byte(nil))
	tEmptyIface = reflect.TypeOf((*interface{})(nil)).Elem()
)

// apiArg builds a hostile but well-formed argument of type t; ok=false if the
// type is not one the generic driver knows how to build.
func apiArg(r *rng.R, t reflect.Type) (reflect.Value, bool) {
	switch {
	case t == tDecimalPtr:
		return reflect.ValueOf(br.ToApd(hostileDecimal(r, hostileContext(r), false))), true
	case t == tDecimalPtr.Elem():
		return reflect.ValueOf(*br.ToApd(hostileDecimal(r, hostileContext(r), false))), true
	case t == tContextPtr:
		return reflect.ValueOf(br.Context(hostileContext(r), randomTraps(r))), true
	case t == tBytes:
		switch r.Intn(6) {
		case 0:
			return reflect.ValueOf([]byte(nil)), true
		case 1:
			return reflect.ValueOf([]byte{}), true
		case 2:
			return reflect.ValueOf([]byte{byte(r.U64())}), true
		case 3:
			return reflect.ValueOf([]byte{'"'}), true
		}
		return reflect.ValueOf([]byte(numericString(r))), true
	case t == tEmptyIface:
		switch r.Intn(6) {
		case 0:
			return reflect.Zero(t), true
		case 1:
			return reflect.ValueOf(interface{}(numericString(r))).Convert(t), true
		case 2:
			return reflect.ValueOf(interface{}([]byte(numericString(r)))).Convert(t), true
		case 3:
			return reflect.ValueOf(interface{}(int64(r.U64()))).Convert(t), true
		case 4:
			return reflect.ValueOf(interface{}(math.Float64frombits(r.U64()))).Convert(t), true
		}
		return reflect.ValueOf(interface{}(struct{}{})).Convert(t), true
	}
	switch t.Kind() {
	case reflect.String:
		s := numericString(r)
		if r.Chance(1, 6) {
			s = []string{"", "\"", "null", " ", "-", "\x00"}[r.Intn(6)]
		}
		return reflect.ValueOf(s).Convert(t), true
	case reflect.Bool:
		return reflect.ValueOf(r.Bool()).Convert(t), true
	case reflect.Int, reflect.Int8, reflect.Int16, reflect.Int32, reflect.Int64:
		v := r.Range(-40, 40)
		if r.Chance(1, 5) {
			v = []int64{math.MinInt32, math.MaxInt32, math.MinInt64, math.MaxInt64, 100001, -100001, 0}[r.Intn(7)]
		}
		return reflect.ValueOf(v).Convert(t), true
	case reflect.Uint, reflect.Uint8, reflect.Uint16, reflect.Uint32, reflect.Uint64:
		v := uint64(r.Intn(300))
		if r.Chance(1, 5) {
			v = r.U64()
		}
		return reflect.ValueOf(v).Convert(t), true
	case reflect.Float32, reflect.Float64:
		return reflect.ValueOf(math.Float64frombits(r.U64())).Convert(t), true
	}
	return reflect.Value{}, false
}

// apiSurfaceCase enumerates the method sets of the exported types by
// reflection and drives every method that is not in the snapshot.
func apiSurfaceCase(t *mon.T) {
	r := t.Rng
	seen := 0
	var fresh []string
	for _, rv := range apiReceivers(r) {
		rt := rv.Type()
		for i := 0; i < rt.NumMethod(); i++ {
			m := rt.Method(i)
			name := rt.String() + "." + m.Name
			seen++
			if apiKnown[name] {
				continue
			}
			fresh = append(fresh, name)
			if rt == tBigIntPtr {
				// BigInt mirrors math/big, whose methods panic outside their
				// documented domain (division by zero ...): a new method there
				// is driven only if it takes no BigInt arguments
				skip := false
				for k := 1; k < m.Type.NumIn(); k++ {
					if m.Type.In(k) == tBigIntPtr {
						skip = true
					}
				}
				if skip {
					t.Count("api/new-method-not-driven")
					continue
				}
			}
			args := []reflect.Value{}
			ok := true
			for k := 1; k < m.Type.NumIn(); k++ {
				a, good := apiArg(r, m.Type.In(k))
				if !good {
					ok = false
					break
				}
				args = append(args, a)
			}
			if !ok || m.Type.IsVariadic() {
				t.Count("api/new-method-not-driven")
				continue
			}
			over, ticks, pan := budgeted(20000000, func() { rv.Method(i).Call(args) })
			t.Eval()
			t.Count("api/new-method-call")
			if over != "" {
				t.Fail("non-termination", map[string]interface{}{"entry": name + " (not in the API snapshot)", "why": fmt.Sprintf("loop budget exceeded at site %q after %d ticks", over, ticks)})
			}
			if pan != nil {
				as := []string{}
				for _, a := range args {
					s := fmt.Sprintf("%#v", a.Interface())
					if len(s) > 80 {
						s = s[:80] + "..."
					}
					as = append(as, s)
				}
				t.Fail("panic", map[string]interface{}{"entry": name + " (not in the API snapshot)", "panic": fmt.Sprint(pan), "args": as})
			}
		}
	}
	sort.Strings(fresh)
	t.R.ChildMax("api_methods_enumerated", float64(seen))
	t.R.ChildMax("api_methods_not_in_snapshot", float64(len(fresh)))
	t.Count("api-surface")
	t.Nontrivial(fmt.Sprintf("api|%d|%s", t.Index, strings.Join(fresh, ",")))
}
