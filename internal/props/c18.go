package props

import (
	"fmt"
	"math/big"
	"os"
	"path/filepath"
	"regexp"
	"runtime"
	"sort"
	"strings"
	"sync"
	"sync/atomic"

	"github.com/cockroachdb/apd/v3"

	"verif/internal/br"
	"verif/internal/dec"
	"verif/internal/gen"
	"verif/internal/mon"
	"verif/internal/rng"
)

func init() {
	register("C18", runC18)
}

type c18Step struct {
	op     string
	ctx    int
	x, y   int
	aux    int64
	result string
}

var c18Ops = append(append([]string{}, allCtxOps...), "String", "Text", "Format", "Cmp", "CmpTotal", "Sign", "NumDigits", "Int64", "Float64", "Modf", "Decompose",
	"MarshalText", "Value", "Size", "Coeff", "Set", "NegAbs", "ReduceDec", "Parse", "ErrDecimal", "Condition", "CoeffArith", "Rounder", "Append")

// c18Pool builds the shared operands of one round. The round number varies
// the exponent gaps and digit counts so that every round touches table
// entries and powers of ten no earlier round touched.
func c18Pool(r *rng.R, round int) []*apd.Decimal {
	var pool []*apd.Decimal
	add := func(d dec.D) { pool = append(pool, br.ToApd(d)) }
	c := dec.Ctx{P: 16, Emin: -383, Emax: 384}
	for i := 0; i < 10; i++ { // inline <= 64 bit
		add(dec.D{Form: dec.Finite, Neg: r.Bool(), C: big.NewInt(r.Range(1, 1<<40)), E: r.Range(-12, 6)})
	}
	for i := 0; i < 8; i++ { // inline 65..128 bit
		v := new(big.Int).Lsh(big.NewInt(r.Range(1, 1<<30)), uint(40+r.Intn(55)))
		v.Add(v, big.NewInt(r.Range(0, 999)))
		add(dec.D{Form: dec.Finite, Neg: r.Bool(), C: v, E: r.Range(-30, 5)})
	}
	for i := 0; i < 8; i++ { // heap-backed
		cf, _ := new(big.Int).SetString(gen.Digits(r, int64(45+r.Intn(200)+round)), 10)
		add(dec.D{Form: dec.Finite, Neg: r.Bool(), C: cf, E: r.Range(-250, 5)})
	}
	for i := 0; i < 6; i++ { // heap-backed but small (reached through arithmetic)
		d := br.ToApd(dec.D{Form: dec.Finite, Neg: r.Bool(), C: big.NewInt(r.Range(1, 1<<50)), E: r.Range(-6, 6)})
		var bigv apd.BigInt
		bigv.SetMathBigInt(new(big.Int).Lsh(bOne, uint(150+r.Intn(100))))
		d.Coeff.Add(&d.Coeff, &bigv)
		d.Coeff.Sub(&d.Coeff, &bigv)
		pool = append(pool, d)
	}
	for i := 0; i < 6; i++ { // far-apart exponents: powers of ten beyond the lookup table, different every round
		add(dec.D{Form: dec.Finite, Neg: r.Bool(), C: big.NewInt(r.Range(1, 99999)), E: -(129 + int64(round)*7 + int64(i)*3 + int64(r.Intn(3)))})
		add(dec.D{Form: dec.Finite, Neg: r.Bool(), C: big.NewInt(r.Range(1, 99999)), E: 129 + int64(round)*5 + int64(i)*2})
	}
	for i := 0; i < 4; i++ {
		add(gen.Zero(r))
	}
	add(dec.Special(dec.NaN, false))
	add(dec.Special(dec.SNaN, true))
	add(dec.Special(dec.Inf, false))
	add(dec.Special(dec.Inf, true))
	for i := 0; i < 6; i++ { // small positive values for the transcendental functions
		add(smallOperandPos(r, c))
	}
	return pool
}

func smallOperandPos(r *rng.R, c dec.Ctx) dec.D {
	d := smallOperand(r, c)
	d.Neg = false
	return d
}

func c18Contexts(r *rng.R, round int) []*apd.Context {
	ps := []int64{5, 16, 34, 9, 20, 50, 3, 77}
	var out []*apd.Context
	for i := 0; i < 3; i++ {
		p := ps[(round+i*3)%len(ps)]
		// every round shares contexts with different trap sets: trapped conditions
		// go through Condition.GoError and the error paths of the composite functions
		traps := []apd.Condition{0, apd.DefaultTraps, apd.Inexact | apd.Rounded, br.AllFlags, apd.Underflow | apd.Subnormal | apd.Clamped,
			apd.Condition(r.U64()) & br.AllFlags}[(round+2*i)%6]
		out = append(out, br.Context(dec.Ctx{P: p, Emin: -6143, Emax: 6144, Mode: dec.Modes[(round+i)%8]}, traps))
	}
	return out
}

// c18Exec performs one step on shared operands with private destinations and
// returns a rendering of everything the call returned.
func c18Exec(st *c18Step, ctxs []*apd.Context, pool []*apd.Decimal) string {
	x, y := pool[st.x], pool[st.y]
	ctx := ctxs[st.ctx]
	var d apd.Decimal
	op := st.op
	heavy := op == "exp" || op == "ln" || op == "log10" || op == "pow" || op == "cbrt"
	if heavy {
		// transcendental functions on arbitrary pool members can be very slow or
		// overflow; use the small positive members of the pool (the last six)
		x = pool[len(pool)-1-st.x%6]
		if op == "pow" {
			y = pool[st.y%10]
		}
	}
	switch {
	case contains(allCtxOps, op):
		var ay *apd.Decimal
		if isBinaryOp(op) {
			ay = y
		}
		res, err := callOn(op, ctx, &d, x, ay, st.aux)
		return fmt.Sprintf("%s [%s] err=%v", meaningful(br.FromApd(&d)), br.FlagNames(res), err != nil)
	case op == "String":
		return x.String()
	case op == "Text":
		return x.Text("eEfgG"[st.aux&3]) + x.Text('G')
	case op == "Format":
		if x.Form == apd.Finite && (x.Exponent > 300 || x.Exponent < -300) {
			return fmt.Sprintf("%v|%+E", x, x)
		}
		return fmt.Sprintf("%v|%+012.3f|%-20G|%e", x, x, x, x)
	case op == "Cmp":
		if x.Form == apd.NaN || x.Form == apd.NaNSignaling || y.Form == apd.NaN || y.Form == apd.NaNSignaling {
			return "nan"
		}
		return fmt.Sprint(x.Cmp(y))
	case op == "CmpTotal":
		return fmt.Sprint(x.CmpTotal(y))
	case op == "Sign":
		return fmt.Sprint(x.Sign(), x.IsZero())
	case op == "NumDigits":
		return fmt.Sprint(x.NumDigits(), apd.NumDigits(&x.Coeff))
	case op == "Int64":
		v, err := x.Int64()
		return fmt.Sprint(v, err != nil)
	case op == "Float64":
		if x.Form == apd.Finite && (x.Exponent > 400 || x.Exponent < -400) {
			return "skip"
		}
		v, err := x.Float64()
		return fmt.Sprint(v, err != nil)
	case op == "Modf":
		if x.Form != apd.Finite {
			return "skip"
		}
		var i, f apd.Decimal
		switch st.aux & 3 { // either part may be nil
		case 0:
			x.Modf(nil, &f)
		case 1:
			x.Modf(&i, nil)
		case 2:
			x.Modf(nil, nil)
		default:
			x.Modf(&i, &f)
		}
		return meaningful(br.FromApd(&i)) + "|" + meaningful(br.FromApd(&f))
	case op == "Decompose":
		form, neg, coef, exp := x.Decompose(make([]byte, 0, 16))
		return fmt.Sprintf("%d %v %x %d", form, neg, coef, exp)
	case op == "MarshalText":
		b, err := x.MarshalText()
		return fmt.Sprint(string(b), err)
	case op == "Value":
		v, err := x.Value()
		return fmt.Sprint(v, err)
	case op == "Size":
		return fmt.Sprint(x.Size(), x.Coeff.Size())
	case op == "Coeff":
		c := &x.Coeff
		return fmt.Sprintf("%d %d %s %x %d %v %v %d %d", c.BitLen(), c.Cmp(&y.Coeff), c.String(), c.Bytes(), c.Sign(), c.IsInt64(), c.IsUint64(), c.Bit(0), c.TrailingZeroBits()) + c.Text(16) + c.MathBigInt().String()
	case op == "Set":
		d.Set(x)
		var e apd.Decimal
		e.Coeff.Set(&x.Coeff)
		return meaningful(br.FromApd(&d)) + e.Coeff.String()
	case op == "NegAbs":
		var e apd.Decimal
		d.Neg(x)
		e.Abs(x)
		return meaningful(br.FromApd(&d)) + meaningful(br.FromApd(&e))
	case op == "Parse":
		// context-aware parsing through the shared Context
		str := x.String()
		if len(str) > 400 {
			str = "1.25E+3"
		}
		got, res, err := ctx.NewFromString(str)
		if got == nil {
			return fmt.Sprint("nil ", err != nil)
		}
		return fmt.Sprintf("%s [%s] err=%v", meaningful(br.FromApd(got)), br.FlagNames(res), err != nil)
	case op == "ErrDecimal":
		ed := apd.MakeErrDecimal(ctx)
		var e apd.Decimal
		ed.Add(&d, x, y)
		ed.Mul(&e, &d, x)
		ed.Sub(&d, &e, y)
		return fmt.Sprintf("%s [%s] err=%v", meaningful(br.FromApd(&d)), br.FlagNames(ed.Flags), ed.Err() != nil)
	case op == "Condition":
		c := apd.Condition(uint32(st.aux+9)) & br.AllFlags
		_, err := c.GoError(ctx.Traps)
		return c.String() + fmt.Sprint(err != nil, apd.BaseContext.Precision, ctx.WithPrecision(7).Precision)
	case op == "CoeffArith":
		// shared coefficients as read-only arguments of BigInt methods with private receivers
		a, b := &x.Coeff, &y.Coeff
		var z, w, u, v apd.BigInt
		out := z.Add(a, b).String() + z.Sub(a, b).String() + w.Mul(a, b).String() + u.And(a, b).String() + v.Or(a, b).String()
		if b.Sign() != 0 {
			var q, m apd.BigInt
			q.QuoRem(a, b, &m)
			out += q.String() + m.String() + w.Quo(a, b).String() + w.Rem(a, b).String()
		}
		out += u.Lsh(a, uint(st.aux&7+1)).String() + v.Rsh(a, uint(st.aux&7+1)).String() + w.Neg(a).String() + z.Abs(b).String() + w.Sqrt(z.Abs(a)).String()
		out += fmt.Sprint(a.CmpAbs(b), a.Cmp(b), a.Int64(), a.Uint64(), string(a.Append(nil, 10)), a.Bits())
		var g apd.BigInt
		if a.Sign() > 0 && b.Sign() > 0 {
			out += g.GCD(nil, nil, a, b).String()
		}
		return out
	case op == "Rounder":
		var e apd.Decimal
		res := ctx.Rounding.Round(ctx, &e, x, st.aux&1 == 0)
		abs := new(apd.BigInt).Abs(&x.Coeff)
		return fmt.Sprint(meaningful(br.FromApd(&e)), br.FlagNames(res), ctx.Rounding.ShouldAddOne(abs, x.Negative, int(st.aux%2)))
	case op == "Append":
		if x.Form == apd.Finite && (x.Exponent > 300 || x.Exponent < -300) {
			return string(x.Append(make([]byte, 0, 8), 'E'))
		}
		// field widths far beyond the text (padding is produced by the package)
		w := []int{70, 130, 260, 520, 1030, 2100}[int(st.aux+8)%6]
		return string(x.Append(nil, "eEfgG"[st.aux&3])) + fmt.Sprintf("%s|%q|%08.2e|% g|%x", x, x, x, x, x) + fmt.Sprintf("|%*v|%-*v|%0*v", w, x, w+3, x, w+7, x)
	case op == "ReduceDec":
		_, n := d.Reduce(x)
		return fmt.Sprint(meaningful(br.FromApd(&d)), n)
	}
	return "?"
}

func contains(l []string, s string) bool {
	for _, e := range l {
		if e == s {
			return true
		}
	}
	return false
}

var raceFrame = regexp.MustCompile(`github\.com/cockroachdb/apd/v3\.([^\s(]+(?:\([^)]*\)\.[A-Za-z0-9_]+)?)`)

// parseRaceLogs counts DATA RACE blocks in the detector's log files and
// de-duplicates them by the innermost apd frames of both accesses.
func parseRaceLogs(prefix string) (blocks int, distinct map[string]int, first string) {
	distinct = map[string]int{}
	files, _ := filepath.Glob(prefix + ".*")
	for _, f := range files {
		b, err := os.ReadFile(f)
		if err != nil {
			continue
		}
		for _, blk := range strings.Split(string(b), "==================") {
			if !strings.Contains(blk, "WARNING: DATA RACE") {
				continue
			}
			blocks++
			if first == "" {
				first = blk
			}
			ms := raceFrame.FindAllStringSubmatch(blk, -1)
			var frames []string
			seen := map[string]bool{}
			for _, m := range ms {
				if !seen[m[1]] && len(frames) < 4 {
					seen[m[1]] = true
					frames = append(frames, m[1])
				}
			}
			sort.Strings(frames)
			distinct[strings.Join(frames, " | ")]++
		}
	}
	return
}

// c18Panics collects panics raised inside the concurrent calls (a runtime
// error there is the visible end of a race on shared state); they are
// reported as violations after the goroutines have been joined.
var (
	c18PanicMu sync.Mutex
	c18Panics  []string
)

func c18Recover(phase string) {
	if p := recover(); p != nil {
		c18PanicMu.Lock()
		if len(c18Panics) < 20 {
			c18Panics = append(c18Panics, phase+": "+fmt.Sprint(p))
		}
		c18PanicMu.Unlock()
	}
}

func c18ReportPanics(t *mon.T) {
	c18PanicMu.Lock()
	defer c18PanicMu.Unlock()
	for _, p := range c18Panics {
		t.Fail("panic-in-concurrent-call", map[string]interface{}{"panic": p})
	}
	c18Panics = nil
}

func runC18(r *mon.Run) {
	r.Rule = "a cold-start phase (16 goroutines do the same first-touch work - growing field widths, big powers of ten, logarithm constants, condition texts - as the first use of the package in the process), then rounds of G goroutines (G in {4,16,64}, GOMAXPROCS in {2,16}) released by a barrier; all share 3 Contexts and a pool of ~70 operand " +
		"Decimals (inline <=64-bit, inline 65..128-bit, heap-backed, heap-backed-but-small, far-apart exponents that need powers of ten beyond " +
		"the lookup table - different ones every round -, zeros, NaN/sNaN/Inf, small values for the transcendental functions); each goroutine " +
		"runs a seeded sequence over the 22 Context operations and 21 read-only Decimal/BigInt method groups (Modf with either part nil, shared coefficients as BigInt arguments, Rounder, Append/Format) with private destinations; the shared Contexts carry different trap sets (none, DefaultTraps, Inexact|Rounded, all, underflow group, random). " +
		"Deciding oracle: the Go race detector (binary built with -race; reports collected from its log); second: every concurrent result " +
		"equals the sequential result computed AFTER the concurrent phase (so first touches of lazily initialised state happen " +
		"concurrently), including a power-of-ten pressure phase in which 16 goroutines hammer shared operands whose coefficient lengths " +
		"and exponent gaps are distinct but congruent modulo 128 and 512, and divide, take roots, multiply and round at five different working precisions between 500 and 9000 digits (torn or mis-keyed caches return wrong values without any data race); third: shared operands, Contexts and the package shared-state fingerprint unchanged at each quiescent point. " +
		"distinct_nontrivial = distinct (op, op) pairs observed in overlapping calls plus distinct steps that overlapped another call."
	r.Assumptions = []string{"the race detector reports unsynchronised conflicting accesses between code paths the workload ran concurrently; its bounded per-word history can miss a race in one round, hence many rounds",
		"destinations are never shared (the contract forbids it)"}
	if !raceEnabled {
		r.Inconclusive("binary built without -race: run through ./check C18 which builds with the race detector")
		return
	}
	logPrefix := ""
	for _, kv := range strings.Fields(os.Getenv("GORACE")) {
		if strings.HasPrefix(kv, "log_path=") {
			logPrefix = strings.TrimPrefix(kv, "log_path=")
		}
	}
	if logPrefix == "" {
		r.Inconclusive("GORACE log_path not set: run through ./check C18")
		return
	}
	rounds := int(r.N(60, 600))
	stepsPer := 50
	var totalCalls, overlapped int64
	pairSet := map[string]int{}
	var pairMu sync.Mutex
	fp0, _ := apd.VerifSharedState()
	startOrders := map[string]bool{}
	// Cold start: the first thing this process does with the package is to have
	// 16 goroutines do the same first-touch work at once - field widths that grow
	// step by step, powers of ten beyond the table, the logarithm constants at
	// several precisions, every condition's text - so that whatever is built or
	// grown lazily is built or grown while other goroutines are using it.
	r.Serial("cold-start", func(t *mon.T) {
		rr := rng.New(r.Seed, "c18-cold", 0)
		runtime.GOMAXPROCS(16)
		vals := []*apd.Decimal{br.ToApd(dec.FromInt(rr.Range(1, 99999), -2)), br.ToApd(dec.D{Form: dec.Finite, Neg: true, C: big.NewInt(rr.Range(1, 1<<50)), E: -7}),
			br.ToApd(dec.Special(dec.Inf, true)), br.ToApd(dec.Special(dec.NaN, false))}
		big1, _ := new(big.Int).SetString(gen.Digits(rr, 700), 10)
		long := br.ToApd(dec.D{Form: dec.Finite, C: big1, E: -300})
		three := br.ToApd(dec.FromInt(3, 0))
		work := func() []string {
			var out []string
			for _, w := range []int{70, 130, 260, 520, 1030, 2100, 4200} {
				for _, v := range vals {
					out = append(out, fmt.Sprintf("%*v|%-*v|%0*v|%+*.3f", w, v, w+1, v, w+2, v, w+3, v))
				}
			}
			for _, p := range []int64{40, 150, 300, 700} {
				ctx := br.Context(dec.Ctx{P: p, Emin: -100000, Emax: 100000, Mode: "half_even"}, apd.Inexact|apd.Rounded|apd.Underflow)
				var d apd.Decimal
				res, err := ctx.Ln(&d, three)
				out = append(out, d.String()+br.FlagNames(res)+fmt.Sprint(err))
				res, err = ctx.Log10(&d, three)
				out = append(out, d.String()+br.FlagNames(res)+fmt.Sprint(err))
				res, err = ctx.Round(&d, long)
				out = append(out, d.String()+br.FlagNames(res)+fmt.Sprint(err))
			}
			for m := 0; m < 4096; m += 37 {
				c := apd.Condition(m)
				_, err := c.GoError(apd.Condition(m * 7 & 4095))
				out = append(out, c.String()+fmt.Sprint(err))
			}
			out = append(out, fmt.Sprint(long.NumDigits()), long.String(), long.Text('f'))
			// read-only methods with optional outputs left out, on shared operands
			for it := 0; it < 40; it++ {
				for _, v := range []*apd.Decimal{vals[0], vals[1], long} {
					var ip, fp apd.Decimal
					v.Modf(nil, &fp)
					v.Modf(&ip, nil)
					v.Modf(nil, nil)
					var e apd.Decimal
					e.Reduce(v)
					i64, err := v.Int64()
					f64, err2 := v.Float64()
					out = append(out, fmt.Sprint(fp.String(), ip.String(), e.String(), i64, err != nil, f64, err2 != nil, v.Cmp(long), v.CmpTotal(vals[0])))
				}
			}
			return out
		}
		const G = 16
		outs := make([][]string, G)
		barrier := make(chan struct{})
		var wg sync.WaitGroup
		for g := 0; g < G; g++ {
			wg.Add(1)
			go func(g int) {
				defer c18Recover("phase 1")
				defer wg.Done()
				<-barrier
				outs[g] = work()
			}(g)
		}
		close(barrier)
		wg.Wait()
		c18ReportPanics(t)
		want := work()
		for g := range outs {
			for i := range want {
				t.Eval()
				if i >= len(outs[g]) || outs[g][i] != want[i] {
					t.Fail("concurrent-result-differs", map[string]interface{}{"phase": "cold-start", "goroutine": g, "item": i, "sequential": clip(want[i])})
					break
				}
			}
		}
		t.Count("cold-start")
		runtime.GOMAXPROCS(runtime.NumCPU())
	})
	r.Require("cold-start", 1)
	r.Serial("rounds", func(t *mon.T) {
		for round := 0; round < rounds; round++ {
			rr := rng.New(r.Seed, "c18-round", int64(round))
			G := []int{4, 16, 64, 16}[round%4]
			runtime.GOMAXPROCS([]int{2, 16}[round%2])
			pool := c18Pool(rr, round)
			ctxs := c18Contexts(rr, round)
			poolRepr := make([]string, len(pool))
			for i := range pool {
				poolRepr[i] = reprOf(pool[i])
			}
			ctxCopy := make([]apd.Context, len(ctxs))
			for i := range ctxs {
				ctxCopy[i] = *ctxs[i]
			}
			// plan
			plans := make([][]c18Step, G)
			for g := 0; g < G; g++ {
				gr := rng.New(r.Seed, fmt.Sprintf("c18-plan-%d", round), int64(g))
				for s := 0; s < stepsPer; s++ {
					op := c18Ops[gr.Intn(len(c18Ops))]
					if (op == "ln" || op == "log10" || op == "pow" || op == "exp" || op == "cbrt") && gr.Chance(2, 3) {
						op = c18Ops[22+gr.Intn(len(c18Ops)-22)]
					}
					plans[g] = append(plans[g], c18Step{op: op, ctx: gr.Intn(len(ctxs)), x: gr.Intn(len(pool)), y: gr.Intn(len(pool)), aux: gr.Range(-8, 8)})
				}
			}
			// concurrent phase
			cur := make([]int32, G) // current op index+1 per goroutine (atomic)
			var inflight int32
			var started int32
			order := make([]int32, G)
			barrier := make(chan struct{})
			var wg sync.WaitGroup
			for g := 0; g < G; g++ {
				wg.Add(1)
				go func(g int) {
					defer c18Recover("phase 2")
					defer wg.Done()
					gr := rng.New(r.Seed, fmt.Sprintf("c18-sched-%d", round), int64(g))
					<-barrier
					order[g] = atomic.AddInt32(&started, 1)
					for s := range plans[g] {
						st := &plans[g][s]
						opIdx := int32(indexOf(c18Ops, st.op) + 1)
						atomic.StoreInt32(&cur[g], opIdx)
						n := atomic.AddInt32(&inflight, 1)
						if n > 1 {
							atomic.AddInt64(&overlapped, 1)
							// record which operations are in flight together
							for o := 0; o < G; o++ {
								if o != g {
									if v := atomic.LoadInt32(&cur[o]); v != 0 {
										a, b := st.op, c18Ops[v-1]
										if a > b {
											a, b = b, a
										}
										pairMu.Lock()
										pairSet[a+"+"+b]++
										pairMu.Unlock()
										break
									}
								}
							}
						}
						st.result = c18Exec(st, ctxs, pool)
						atomic.AddInt32(&inflight, -1)
						atomic.StoreInt32(&cur[g], 0)
						atomic.AddInt64(&totalCalls, 1)
						if gr.Chance(1, 3) {
							runtime.Gosched()
						}
					}
				}(g)
			}
			close(barrier)
			wg.Wait()
			c18ReportPanics(t)
			// quiescent point: nothing shared may have changed
			for i := range pool {
				if got := reprOf(pool[i]); got != poolRepr[i] {
					t.Fail("shared-operand-modified", map[string]interface{}{"round": round, "operand": i, "before": poolRepr[i], "after": got})
				}
			}
			for i := range ctxs {
				if *ctxs[i] != ctxCopy[i] {
					t.Fail("shared-context-modified", map[string]interface{}{"round": round, "context": i})
				}
			}
			if fp, _ := apd.VerifSharedState(); fp != fp0 {
				t.Fail("shared-state-modified", map[string]interface{}{"round": round, "why": "package-level constants/tables fingerprint changed"})
			}
			// sequential baseline computed after the concurrent phase
			for g := 0; g < G; g++ {
				for s := range plans[g] {
					st := plans[g][s]
					want := c18Exec(&st, ctxs, pool)
					t.Eval()
					t.Count("op/" + st.op)
					if want != plans[g][s].result {
						t.Fail("concurrent-result-differs", map[string]interface{}{"round": round, "goroutine": g, "step": s, "op": st.op, "concurrent": clip(plans[g][s].result), "sequential": clip(want),
							"x": br.FromApd(pool[st.x]).String(), "y": br.FromApd(pool[st.y]).String()})
					}
				}
			}
			ord := fmt.Sprint(order)
			startOrders[ord] = true
			t.Count("rounds")
		}
		runtime.GOMAXPROCS(runtime.NumCPU())
		for p := range pairSet {
			t.Nontrivial("pair|" + p)
		}
		t.Nontrivial("calls|overlapped")
		blocks, distinct, first := parseRaceLogs(logPrefix)
		t.R.Extra("race_reports", blocks)
		t.R.Extra("race_reports_distinct", len(distinct))
		if blocks > 0 {
			t.Count("race-reported")
			keys := []string{}
			for k, v := range distinct {
				keys = append(keys, fmt.Sprintf("%dx %s", v, k))
			}
			sort.Strings(keys)
			if len(first) > 3500 {
				first = first[:3500]
			}
			t.Fail("data-race", map[string]interface{}{"reports": blocks, "distinct_by_apd_frames": keys, "first_report": first})
		}
		t.Sample(map[string]interface{}{"rounds": rounds, "steps_per_goroutine": stepsPer, "calls": atomic.LoadInt64(&totalCalls), "calls_started_while_another_was_in_flight": atomic.LoadInt64(&overlapped),
			"distinct_overlapping_op_pairs": len(pairSet), "distinct_start_orders": len(startOrders), "race_reports": blocks})
	})
	// Power-of-ten pressure: shared operands whose coefficient lengths, and
	// whose exponent gaps, are different but congruent modulo 128 and 512, used
	// in tight loops by all goroutines. Any cache of computed powers of ten that
	// is keyed, hashed or published incorrectly hands a goroutine the wrong
	// power here even when every access is atomic (no data race to report).
	pressureRounds := int(r.N(5, 60))
	var pressureCalls, pressureMismatch int64
	r.Serial("pow10-pressure", func(t *mon.T) {
		for round := 0; round < pressureRounds; round++ {
			rr := rng.New(r.Seed, "c18-pressure", int64(round))
			runtime.GOMAXPROCS(16)
			base := int64(130 + rr.Intn(380))
			var ops []*apd.Decimal
			for i := int64(0); i < 5; i++ {
				for _, stride := range []int64{128, 512} {
					n := base + stride*i
					cf, _ := new(big.Int).SetString(gen.Digits(rr, n), 10)
					ops = append(ops, br.ToApd(dec.D{Form: dec.Finite, Neg: rr.Bool(), C: cf, E: -rr.Range(0, n)}))
				}
			}
			gbase := int64(129 + rr.Intn(300))
			var far []*apd.Decimal
			for i := int64(0); i < 6; i++ {
				far = append(far, br.ToApd(dec.D{Form: dec.Finite, Neg: rr.Bool(), C: big.NewInt(rr.Range(1, 99999)), E: gbase + 128*i}))
				far = append(far, br.ToApd(dec.D{Form: dec.Finite, Neg: rr.Bool(), C: big.NewInt(rr.Range(1, 99999)), E: -(gbase + 512*i)}))
			}
			small := br.ToApd(dec.FromInt(rr.Range(1, 999), 0))
			ctx := br.Context(dec.Ctx{P: 100, Emin: -6143, Emax: 6144, Mode: "half_even"}, 0)
			wide := br.Context(dec.Ctx{P: 4000, Emin: -100000, Emax: 100000, Mode: "half_even"}, 0)
			// high working precisions, different in every round and from each other:
			// divisions and roots at 500..10000 digits ask for powers of ten far
			// beyond any table, a different one per precision
			hp := []*apd.Context{}
			for _, p := range []int64{520 + int64(rr.Intn(400)), 1030 + int64(rr.Intn(900)), 2050 + int64(rr.Intn(1900)), 4100 + int64(rr.Intn(1500)), 6000 + int64(rr.Intn(3000))} {
				hp = append(hp, br.Context(dec.Ctx{P: p, Emin: -100000, Emax: 100000, Mode: "half_even"}, 0))
			}
			var huge []*apd.Decimal
			hbase := int64(4200 + rr.Intn(900))
			for i := int64(0); i < 4; i++ {
				cf, _ := new(big.Int).SetString(gen.Digits(rr, hbase+1700*i), 10)
				huge = append(huge, br.ToApd(dec.D{Form: dec.Finite, Neg: rr.Bool(), C: cf, E: -rr.Range(0, 3000)}))
			}
			// coefficients of tens of thousands of digits (beyond 65536 bits), of
			// different lengths, for the digit counting and comparison paths
			var giant []*apd.Decimal
			for _, n := range []int64{19800 + int64(rr.Intn(300)), 21306 + int64(rr.Intn(3)), 30000 + int64(rr.Intn(9000)), 40000} {
				cf, _ := new(big.Int).SetString(gen.Digits(rr, n), 10)
				giant = append(giant, br.ToApd(dec.D{Form: dec.Finite, Neg: rr.Bool(), C: cf, E: -rr.Range(0, 3000)}))
			}
			num, den := br.ToApd(dec.FromInt(rr.Range(1, 99), 0)), br.ToApd(dec.FromInt(rr.Range(3, 97)|1, 0))
			digest := func(d *apd.Decimal) string {
				s := d.Coeff.String()
				tail := s
				if len(tail) > 24 {
					tail = s[:12] + ".." + s[len(s)-12:]
				}
				return fmt.Sprint(len(s), " ", tail, " ", d.Exponent, " ", d.Form)
			}
			exec := func(kind, i, j int) string {
				var d apd.Decimal
				switch kind {
				case 7:
					res, _ := hp[j%len(hp)].Quo(&d, num, den)
					return digest(&d) + br.FlagNames(res)
				case 8:
					res, _ := hp[j%3].Sqrt(&d, den)
					return digest(&d) + br.FlagNames(res)
				case 9:
					res, _ := ctx.Round(&d, huge[i%len(huge)])
					return digest(&d) + br.FlagNames(res) + fmt.Sprint(huge[i%len(huge)].NumDigits())
				case 10:
					res, _ := hp[j%len(hp)].Mul(&d, huge[i%len(huge)], huge[(i+1)%len(huge)])
					return digest(&d) + br.FlagNames(res)
				case 11:
					g1, g2 := giant[i%len(giant)], giant[(i+j)%len(giant)]
					res, _ := ctx.Round(&d, g1)
					return fmt.Sprint(g1.NumDigits(), g1.Cmp(g2), g2.NumDigits(), digest(&d), br.FlagNames(res))
				case 0:
					return fmt.Sprint(ops[i].NumDigits())
				case 1:
					res, _ := ctx.Round(&d, ops[i])
					return meaningful(br.FromApd(&d)) + br.FlagNames(res)
				case 2:
					res, _ := wide.RoundToIntegralValue(&d, far[j])
					return fmt.Sprint(d.Coeff.BitLen(), d.NumDigits(), d.Exponent, br.FlagNames(res))
				case 3:
					res, _ := wide.Add(&d, far[j], small)
					return fmt.Sprint(d.NumDigits(), d.Exponent, d.Coeff.BitLen(), br.FlagNames(res))
				case 4:
					return fmt.Sprint(ops[i].Cmp(ops[(i+1)%len(ops)]), far[j].Cmp(small))
				case 5:
					res, _ := wide.Quantize(&d, far[j], 0)
					return fmt.Sprint(d.NumDigits(), d.Coeff.BitLen(), br.FlagNames(res))
				default:
					var ip, fp apd.Decimal
					ops[i].Modf(&ip, &fp)
					return fmt.Sprint(ip.NumDigits(), fp.NumDigits(), ip.Coeff.BitLen())
				}
			}
			const G, iters = 16, 250
			type rec struct {
				kind, i, j int
				out        string
			}
			recs := make([][]rec, G)
			barrier := make(chan struct{})
			var wg sync.WaitGroup
			for g := 0; g < G; g++ {
				wg.Add(1)
				go func(g int) {
					defer c18Recover("phase 3")
					defer wg.Done()
					gr := rng.New(r.Seed, fmt.Sprintf("c18-pressure-%d", round), int64(g))
					<-barrier
					for it := 0; it < iters; it++ {
						k, i, j := gr.Intn(7), gr.Intn(len(ops)), gr.Intn(len(far))
						if gr.Chance(1, 5) {
							k = 7 + gr.Intn(5)
						}
						recs[g] = append(recs[g], rec{k, i, j, exec(k, i, j)})
					}
				}(g)
			}
			close(barrier)
			wg.Wait()
			c18ReportPanics(t)
			for g := range recs {
				for _, rc := range recs[g] {
					atomic.AddInt64(&pressureCalls, 1)
					t.Eval()
					if want := exec(rc.kind, rc.i, rc.j); want != rc.out {
						atomic.AddInt64(&pressureMismatch, 1)
						t.Fail("concurrent-result-differs", map[string]interface{}{"phase": "pow10-pressure", "round": round, "kind": rc.kind, "operand": rc.i, "far": rc.j,
							"concurrent": clip(rc.out), "sequential": clip(want), "coefficient_digits_base": base, "exponent_gap_base": gbase})
					}
				}
			}
			// division storm: many divisions of the same two small operands at the
			// five working precisions at once; every call of one precision has one
			// right answer, computed sequentially afterwards
			{
				const G2, iters2 = 16, 1200
				outs := make([][]string, G2)
				idx := make([][]int, G2)
				barrier2 := make(chan struct{})
				var wg2 sync.WaitGroup
				for g := 0; g < G2; g++ {
					wg2.Add(1)
					go func(g int) {
						defer c18Recover("phase 4")
						defer wg2.Done()
						gr := rng.New(r.Seed, fmt.Sprintf("c18-storm-%d", round), int64(g))
						<-barrier2
						for it := 0; it < iters2; it++ {
							j := gr.Intn(len(hp))
							if j >= 3 && gr.Chance(3, 4) {
								j = gr.Intn(3) // the larger precisions cost more: fewer of them
							}
							var d apd.Decimal
							res, _ := hp[j].Quo(&d, num, den)
							outs[g] = append(outs[g], digest(&d)+br.FlagNames(res))
							idx[g] = append(idx[g], j)
						}
					}(g)
				}
				close(barrier2)
				wg2.Wait()
				c18ReportPanics(t)
				want := make([]string, len(hp))
				for j := range hp {
					var d apd.Decimal
					res, _ := hp[j].Quo(&d, num, den)
					want[j] = digest(&d) + br.FlagNames(res)
				}
				for g := range outs {
					for k, o := range outs[g] {
						atomic.AddInt64(&pressureCalls, 1)
						t.Eval()
						if o != want[idx[g][k]] {
							atomic.AddInt64(&pressureMismatch, 1)
							t.Fail("concurrent-result-differs", map[string]interface{}{"phase": "division-storm", "round": round, "precision": hp[idx[g][k]].Precision,
								"concurrent": clip(o), "sequential": clip(want[idx[g][k]])})
						}
					}
				}
			}
			t.Count("pressure-rounds")
		}
		runtime.GOMAXPROCS(runtime.NumCPU())
		if blocks, distinct, first := parseRaceLogs(logPrefix); blocks > int(r.Hist("race-blocks-before-pressure")) {
			_ = distinct
			if len(first) > 3000 {
				first = first[:3000]
			}
			if r.Hist("race-reported") == 0 {
				t.Fail("data-race", map[string]interface{}{"phase": "pow10-pressure", "reports": blocks, "first_report": first})
			}
		}
	})
	r.Extra("pow10_pressure_calls", atomic.LoadInt64(&pressureCalls))
	r.Extra("calls", atomic.LoadInt64(&totalCalls))
	r.Extra("overlapping_calls", atomic.LoadInt64(&overlapped))
	r.Extra("distinct_overlapping_op_pairs", len(pairSet))
	r.Extra("distinct_start_orders", len(startOrders))
	if atomic.LoadInt64(&overlapped) < 1000 || len(pairSet) < 100 {
		r.Inconclusive(fmt.Sprintf("too little measured overlap: %d overlapping calls, %d distinct op pairs", overlapped, len(pairSet)))
	}
	for _, op := range c18Ops {
		r.Require("op/"+op, 20)
	}
	r.Require("pressure-rounds", 5)
}

func indexOf(l []string, s string) int {
	for i, e := range l {
		if e == s {
			return i
		}
	}
	return 0
}
