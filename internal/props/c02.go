package props

import (
	"fmt"

	"github.com/cockroachdb/apd/v3"
	"math/big"
	"strings"

	"verif/internal/br"
	"verif/internal/dec"
	"verif/internal/gen"
	"verif/internal/mon"
	"verif/internal/rng"
)

func init() {
	register("C02", runC02)
	register("C07", runC07)
}

// sqrtOperand draws a positive finite operand for Sqrt/Cbrt-like functions.
func sqrtOperand(r *rng.R, c dec.Ctx) dec.D {
	x := gen.Finite(r, c)
	x.Neg = false
	if x.IsZero() {
		x.C = big.NewInt(int64(1 + r.Intn(99)))
	}
	switch r.Pick(50, 25, 25) {
	case 0:
	case 1: // perfect square of a root with <= p digits (or slightly more)
		root := gen.Coeff(r, c.P)
		x.C = new(big.Int).Mul(root, root)
		x.E = 2 * r.Range(-20, 20)
	case 2: // neighbour of a perfect square
		root := gen.Coeff(r, c.P)
		x.C = new(big.Int).Mul(root, root)
		if r.Bool() {
			x.C.Add(x.C, big.NewInt(1))
		} else if x.C.Cmp(big.NewInt(1)) > 0 {
			x.C.Sub(x.C, big.NewInt(1))
		}
		x.E = r.Range(-40, 40)
	}
	return x
}

func sqrtCase(t *mon.T, which string, c dec.Ctx, x dec.D) {
	m, info := ModelSqrt(c, x)
	o := CallArith("sqrt", br.Context(c, 0), x, dec.D{})
	if m.Skip == "" && info != nil && o.Err == nil {
		if cls := sqrtKnownClass(c, x, m, info, o, which); cls != "" {
			// attributed to the known finding if listed, else a violation
			t.Eval()
			t.Count("sqrt/hard-case")
			bad := (strings.Contains(which, "value") || which == "all") && CheckValue(m, o) != ""
			bad = bad || ((strings.Contains(which, "flags") || which == "all") && CheckFlags(m, o) != "")
			if bad {
				d := detail("sqrt", c, x, dec.D{}, o, "hard case: root within the guard digits of a rounding boundary or of a representable value")
				d["expected"] = m.Res.FullString()
				t.FailClass("sqrt-hard-case", cls, d)
				return
			}
		}
	}
	judge(t, which, "sqrt", c, x, dec.D{}, m, o)
}

// sqrtKnownClass returns the known-finding class name if this case lies in
// the hard-case class of KF-C11-sqrt-hard-cases: the exact root is within
// 10^-(g-1) quanta of a rounding boundary (tie point) or of a representable
// value, where g is the number of guard digits apd's final iterate carries
// beyond the kept digits. Outside this class any deviation is a violation.
func sqrtKnownClass(c dec.Ctx, x dec.D, m Expect, info *SqrtInfo, o Outcome, which string) string {
	workp := c.P + 1
	if nd := x.Digits(); workp < nd {
		workp = nd
	}
	if workp < 7 {
		workp = 7
	}
	w := workp + 5
	g := w - info.Kept // guard digits
	if g < 2 {
		g = 2
	}
	mm := g - 1
	if mm > 400 {
		mm = 400
	}
	s2 := new(big.Int).Lsh(info.S, 1)
	// near the tie point s + 1/2
	tie := new(big.Int).Add(s2, big.NewInt(1))
	if sqrtWithin(info.A, info.B, tie, mm) {
		return "sqrt_root_within_guard_of_boundary"
	}
	// near a representable value s or s+1 (but not equal to it)
	if !info.Exact {
		if sqrtWithin(info.A, info.B, s2, mm) || sqrtWithin(info.A, info.B, new(big.Int).Add(s2, big.NewInt(2)), mm) {
			return "sqrt_root_within_guard_of_boundary"
		}
	}
	return ""
}

func reduceCase(t *mon.T, which string, c dec.Ctx, x dec.D) {
	m := ModelReduce(c, x)
	o := CallArith("reduce", br.Context(c, 0), x, dec.D{})
	if judge(t, which, "reduce", c, x, dec.D{}, m, o) && o.Res.Form == dec.Finite && o.Res.C.Sign() != 0 {
		if new(big.Int).Mod(o.Res.C, big.NewInt(10)).Sign() == 0 {
			t.Fail("reduce-trailing-zero", detail("reduce", c, x, dec.D{}, o, "coefficient still has a trailing zero"))
		}
	}
}

// reduceOperand draws operands with trailing zeros, carries and roundings to zero.
func reduceOperand(r *rng.R, c dec.Ctx) dec.D {
	x := gen.Finite(r, c)
	if x.IsZero() {
		return x
	}
	switch r.Pick(30, 40, 30) {
	case 0:
	case 1: // trailing zeros 0..40
		k := int64(r.Intn(41))
		x.C = new(big.Int).Mul(x.C, dec.Pow10(k))
		x.E -= k
		if x.E < gen.MinExp+1000 {
			x.E = 0
		}
	case 2: // carries into a power of ten: 99..95
		n := c.P + int64(r.Intn(3))
		s := gen.Repeat("9", int(n)) + []string{"5", "9", "4", "50", "49"}[r.Intn(5)]
		x.C, _ = new(big.Int).SetString(s, 10)
	}
	return x
}

// mixedFlagCase draws one event from the C02 operation set.
func mixedFlagCase(t *mon.T, which string) {
	r := t.Rng
	c := gen.Context(r)
	switch r.Pick(40, 8, 10, 10, 8, 8, 8, 8) {
	case 0:
		op := arithOps[r.Intn(4)]
		x, y := gen.Pair(r, c, op)
		arithCase(t, which, op, c, x, y)
	case 1:
		arithCase(t, which, "round", c, gen.Finite(r, c), dec.D{})
	case 2:
		x, y := remPair(r, c)
		ctx := br.Context(c, 0)
		judge(t, which, "quoint", c, x, y, ModelQuoInteger(c, x, y), CallArith("quoint", ctx, x, y))
	case 3:
		x, y := remPair(r, c)
		ctx := br.Context(c, 0)
		judge(t, which, "rem", c, x, y, ModelRem(c, x, y), CallArith("rem", ctx, x, y))
	case 4:
		x, e := quantizeOperand(r, c)
		quantizeCase(t, which, c, x, e)
	case 5:
		if which == "fit" {
			// RoundToIntegral has no digit limit; C07 does not list it.
			reduceCase(t, which, c, reduceOperand(r, c))
		} else {
			rtiCase(t, which, "rtie", c, integralOperand(r, c))
		}
	case 6:
		reduceCase(t, which, c, reduceOperand(r, c))
	case 7:
		sqrtCase(t, which, c, sqrtOperand(r, c))
	}
}

func pinnedC02(t *mon.T, which string) {
	pinnedArith(t, which)
}

func runC02(r *mon.Run) {
	r.Rule = "cases: the C01 operand/context generators for Add/Sub/Mul/Quo/Round plus the QuoInteger/Rem, Quantize, RoundToIntegralExact, " +
		"Reduce and Sqrt generators, and perfect cubes in volume for Cbrt; the Condition returned by apd is compared with the flags derived from the exact result by the reference " +
		"model: equalities on Inexact, Subnormal, Underflow, Overflow and the division/invalid conditions, implications only for Rounded " +
		"(Inexact => Rounded on finite results) and none for Clamped; no bit outside the twelve documented ones. distinct_nontrivial = " +
		"distinct cases whose model flags are non-empty."
	r.Assumptions = []string{"math/big is correct", "Subnormal is left unconstrained for Quantize/RoundToIntegralExact (the specification is silent)",
		"Sqrt cases inside the hard-case class of known finding KF-C11-sqrt-hard-cases are attributed to it (see DESIGN.md)"}
	r.Serial("pinned", func(t *mon.T) { pinnedC02(t, "flags") })
	r.Parallel("flags", r.N(500000, 40000000), func(t *mon.T) { mixedFlagCase(t, "flags") })
	r.Parallel("coincidence-lengths", int64(len(coincidenceExps))*r.N(2, 20), func(t *mon.T) { coincidenceArithCase(t, "flags") })
	// Cbrt: Inexact and Rounded on perfect cubes whose root fits (the returned
	// value is the exact result, so neither may be raised); the case function
	// is C11's, in volume, because which cubes go wrong is not a boundary shape
	r.Parallel("cbrt-perfect-cubes", r.N(200000, 10000000), perfectCubeFlagsCase)
	r.Require("cbrt/perfect-cube-volume", 150000)
	if !r.Quick() {
		gridRun(r, "flags")
	}
	for _, op := range []string{"add", "sub", "mul", "quo", "round", "quoint", "rem", "quantize", "rtie", "reduce", "sqrt"} {
		r.Require("op/"+op, 1000)
	}
	for _, cl := range []string{"class/tie", "class/carry", "class/subnormal-inexact", "class/subnormal-exact", "class/overflow", "class/division-impossible"} {
		r.Require(cl, 50)
	}
	registerSqrtWitness(r)
}

func runC07(r *mon.Run) {
	r.Rule = "cases: the union of the C01/C09/C10/C11/C12 workloads (Add, Sub, Mul, Quo, Abs, Neg, Round, Rem, QuoInteger, Reduce, Sqrt, Cbrt, " +
		"Exp, Ln, Log10, Pow, Quantize, context-aware parsing) with the carry families stressed, plus coefficients of every length from 129 to " +
		"12000 (quick) / 101000 (thorough) digits just above and below a power of ten; every finite result is checked against the " +
		"context: digits (counted from the decimal text) <= Precision, adjusted exponent <= MaxExponent, exponent >= Etiny for non-zero " +
		"values, non-negative coefficient, valid form, exponent 0 for QuoInteger. distinct_nontrivial = distinct cases whose exact " +
		"result needed rounding, was subnormal or overflowed (as classified by the reference model), plus the transcendental cases."
	r.Assumptions = []string{"only the fit is judged here, not the value (C01/C09/C10/C11/C12 judge values)"}
	r.Serial("pinned", func(t *mon.T) {
		pinnedArith(t, "fit")
		// fixed: Log10(1.001) at p=3 MinExponent 0 returned 4.34E-4 (exponent below Etiny)
		x, _ := dec.Parse("1001E-3")
		transCase(t, "fit", "log10", dec.Ctx{P: 3, Emin: 0, Emax: 4, Mode: "half_up"}, x, dec.D{})
		x2, _ := dec.Parse("1000000000000002648720806956E-27")
		transCase(t, "fit", "log10", dec.Ctx{P: 20, Emin: -1, Emax: 21, Mode: "half_down"}, x2, dec.D{})
	})
	r.Parallel("coincidence-lengths", int64(len(coincidenceExps))*r.N(2, 20), func(t *mon.T) { coincidenceArithCase(t, "fit") })
	r.Parallel("huge-precision", r.N(6000, 400000), func(t *mon.T) { hugePrecisionCase(t, "fit") })
	// operands from a wider context: zeros (and tiny or huge values) whose
	// exponent lies outside this context's range. A zero result keeps no digits
	// but still has an exponent, which must end up inside the range.
	r.Parallel("out-of-range-operands", r.N(40000, 3000000), func(t *mon.T) {
		rr := t.Rng
		c := gen.Context(rr)
		if c.Emax > 7000 {
			c.Emin, c.Emax = -383, 384
		}
		far := func() int64 {
			if rr.Bool() {
				return c.Emax + rr.Range(1, 900)
			}
			return c.Etiny() - rr.Range(1, 900)
		}
		x := dec.Zero(rr.Bool(), far())
		if rr.Chance(1, 4) {
			x = dec.D{Form: dec.Finite, Neg: rr.Bool(), C: big.NewInt(rr.Range(1, 999)), E: far()}
		}
		ops := []string{"abs", "neg", "round", "reduce", "sqrt", "cbrt", "add", "sub", "mul", "quo", "rem", "rtie", "rtiv"}
		op := ops[rr.Intn(len(ops))]
		var y dec.D
		if isBinaryOp(op) {
			y = gen.Finite(rr, c)
			if rr.Chance(1, 3) {
				y = dec.Zero(rr.Bool(), far())
			}
			if (op == "quo" || op == "rem") && y.IsZero() {
				y = dec.FromInt(rr.Range(1, 99), 0)
			}
			if rr.Bool() && op != "quo" && op != "rem" {
				x, y = y, x
			}
		}
		if op == "sqrt" {
			x.Neg = x.Neg && x.IsZero()
		}
		o := CallArith(op, br.Context(c, 0), x, y)
		t.Eval()
		t.Count("out-of-range-operands/" + op)
		if o.Err != nil || o.Flags&apd.InvalidOperation != 0 {
			t.Skip("error-or-invalid")
			return
		}
		if o.Res.Form == dec.Finite && (op == "rtie" || op == "rtiv") {
			return // RoundToIntegral* has no exponent-range clause (C09)
		}
		if why := CheckFit(c, o); why != "" {
			t.Fail("fit-mismatch", detail(op, c, x, y, o, why))
		}
		t.Nontrivial(fmt.Sprintf("oor|%s|%s|%s|%s", op, c, x.FullString(), y.FullString()))
	})
	r.Parallel("fit", r.N(400000, 40000000), func(t *mon.T) {
		if t.Rng.Chance(1, 5) {
			// carry family: quotients/sums/roundings just below a power of ten
			c := gen.Context(t.Rng)
			nines, _ := new(big.Int).SetString(gen.Repeat("9", int(c.P))+[]string{"5", "6", "9", "95", "4", "1"}[t.Rng.Intn(6)], 10)
			x := gen.WithAdj(t.Rng.Bool(), nines, gen.TargetAdj(t.Rng, c))
			switch t.Rng.Intn(4) {
			case 0:
				arithCase(t, "fit", "quo", c, x, dec.FromInt(1, 0))
			case 1:
				arithCase(t, "fit", "add", c, x, dec.Zero(false, x.E))
			case 2:
				arithCase(t, "fit", "mul", c, x, dec.FromInt(1, 0))
			default:
				arithCase(t, "fit", "round", c, x, dec.D{})
			}
			return
		}
		mixedFlagCase(t, "fit")
	})
	r.Parallel("fit-unary", r.N(50000, 4000000), func(t *mon.T) {
		c := gen.Context(t.Rng)
		arithCase(t, "fit", unaryOps[t.Rng.Intn(3)], c, gen.Finite(t.Rng, c), dec.D{})
	})
	r.Parallel("fit-parse", r.N(50000, 4000000), func(t *mon.T) {
		c := gen.Context(t.Rng)
		d := gen.Finite(t.Rng, c)
		s := decimalString(t.Rng, d)
		got, flags, err := br.Context(c, 0).NewFromString(s)
		t.Eval()
		if err != nil || got == nil {
			t.Skip("parse-error-or-system-limit")
			return
		}
		o := Outcome{Res: br.FromApd(got), Flags: flags, Raw: got}
		t.Count("op/parse")
		if why := CheckFit(c, o); why != "" {
			t.Fail("fit-mismatch", map[string]interface{}{"op": "parse", "ctx": c.String(), "s": s, "got": o.Res.FullString(), "why": why})
		}
	})
	// long coefficients just above and just below a power of ten: every
	// coefficient length from 129 digits up, where any estimate of the digit
	// count from the bit length is most fragile
	longTo := r.N(12000, 101000)
	r.Parallel("fit-long", longTo-128, func(t *mon.T) {
		j := t.Index + 129
		c := dec.Ctx{P: int64(1 + t.Rng.Intn(20)), Emin: -200000 + 100000, Emax: 100000, Mode: gen.Mode(t.Rng)}
		p := dec.Pow10(j)
		var cf *big.Int
		if t.Rng.Bool() {
			cf = new(big.Int).Add(p, big.NewInt(t.Rng.Range(0, 99)))
		} else {
			cf = new(big.Int).Sub(p, big.NewInt(t.Rng.Range(1, 99)))
		}
		x := dec.D{Form: dec.Finite, Neg: t.Rng.Bool(), C: cf, E: -j + t.Rng.Range(-5, 5)}
		op := []string{"round", "add", "mul", "quo", "abs"}[t.Rng.Intn(5)]
		var y dec.D
		switch op {
		case "add":
			y = dec.Zero(false, x.E)
		case "mul", "quo":
			y = dec.FromInt(1, 0)
		}
		o := CallArith(op, br.Context(c, 0), x, y)
		t.Eval()
		t.Count("fit-long")
		if o.Err != nil {
			t.Skip("error:fit-long")
			return
		}
		if why := CheckFit(c, o); why != "" {
			t.Fail("fit-mismatch", map[string]interface{}{"op": op, "ctx": c.String(), "coefficient_digits": dec.NumDigits(cf), "x": x.String(), "got": o.Res.String(), "why": why})
		}
	})
	// Log10 of exact powers of ten, whose integer result has few digits but may
	// lie far above a small MaxExponent (Log10(1E+1000) = 1000 with MaxExponent 2)
	r.Parallel("log10-powers", r.N(4000, 200000), func(t *mon.T) {
		rr := t.Rng
		c := dec.Ctx{P: int64(1 + rr.Intn(20)), Emin: -rr.Range(0, 4), Emax: rr.Range(0, 4), Mode: gen.Mode(rr)}
		k := rr.Range(1, 99000)
		if rr.Bool() {
			k = rr.Range(1, 2000)
		}
		if rr.Bool() {
			k = -k
		}
		j := int64(rr.Intn(6))
		x := dec.D{Form: dec.Finite, C: new(big.Int).Set(dec.Pow10(j)), E: k - j}
		transCase(t, "fit", "log10", c, x, dec.D{})
		t.Count("log10-powers")
	})
	transcendentalFit(r)
	if !r.Quick() {
		gridRun(r, "fit")
	}
	for _, op := range []string{"add", "sub", "mul", "quo", "round", "abs", "neg", "quoint", "rem", "quantize", "reduce", "sqrt", "parse",
		"cbrt", "exp", "ln", "log10", "pow"} {
		r.Require("op/"+op, 500)
	}
	r.Require("class/carry", 100)
}
