package props

import (
	"encoding/json"
	"fmt"
	"math/big"
	"os"

	"github.com/cockroachdb/apd/v3"

	"verif/internal/br"
	"verif/internal/dec"
	"verif/internal/mon"
)

func init() {
	register("C08", runC08)
}

// spec is the table's verdict for one cell of the special-value grid.
type spec struct {
	defined bool   // false: the cell is deferred to other properties or unconstrained
	why     string // reason when not defined
	nan     bool   // result is a quiet NaN
	nanNeg  *bool  // expected sign of a propagated NaN (nil = unchecked)
	res     dec.D  // expected value when !nan (numeric comparison, sign of zero included)
	altZero bool   // a zero of either sign is accepted
	flags   apd.Condition
	// flagsLoose: only the invalid/division bits are compared (the cell may also
	// carry Inexact/Rounded/Clamped legitimately)
	flagsLoose bool
}

func bptr(b bool) *bool { return &b }

func isOddInt(y dec.D) (isInt, odd bool) {
	if y.Form != dec.Finite {
		return false, false
	}
	if y.C.Sign() == 0 {
		return true, false
	}
	if y.E >= 0 {
		if y.E > 0 {
			return true, false // multiple of ten: even
		}
		return true, y.C.Bit(0) == 1
	}
	q, r := new(big.Int).QuoRem(y.C, dec.Pow10(-y.E), new(big.Int))
	if r.Sign() != 0 {
		return false, false
	}
	return true, q.Bit(0) == 1
}

var one = dec.FromInt(1, 0)

// specialSpec is the special-value table (C08), written from the General
// Decimal Arithmetic specification and the property's list. ops: add sub mul
// quo quoint rem abs neg round quantize rtiv rtie ceil floor reduce cmp sqrt
// cbrt exp ln log10 pow.
func specialSpec(op string, x, y dec.D, mode string) spec {
	binary := y.C != nil
	inv := spec{defined: true, nan: true, flags: apd.InvalidOperation}
	val := func(d dec.D) spec { return spec{defined: true, res: d} }
	inf := func(neg bool) spec { return val(dec.Special(dec.Inf, neg)) }
	zero := func(neg bool) spec { return val(dec.Zero(neg, 0)) }
	deferred := func(why string) spec { return spec{why: why} }

	// NaN handling is common to every operation.
	if x.Form == dec.SNaN {
		return spec{defined: true, nan: true, nanNeg: bptr(x.Neg), flags: apd.InvalidOperation}
	}
	if binary && y.Form == dec.SNaN {
		return spec{defined: true, nan: true, nanNeg: bptr(y.Neg), flags: apd.InvalidOperation}
	}
	if x.Form == dec.NaN {
		return spec{defined: true, nan: true, nanNeg: bptr(x.Neg)}
	}
	if binary && y.Form == dec.NaN {
		return spec{defined: true, nan: true, nanNeg: bptr(y.Neg)}
	}
	xi := x.Form == dec.Inf
	yi := binary && y.Form == dec.Inf
	xz := x.IsZero()
	yz := binary && y.IsZero()
	sx := x.Neg != false
	switch op {
	case "add", "sub":
		yn := y.Neg != (op == "sub")
		switch {
		case xi && yi:
			if x.Neg != yn {
				return inv
			}
			return inf(x.Neg)
		case xi:
			return inf(x.Neg)
		case yi:
			return inf(yn)
		case xz && yz:
			if x.Neg == yn {
				return zero(x.Neg)
			}
			return zero(mode == "floor")
		}
		return deferred("finite operands (C01)")
	case "mul":
		switch {
		case (xi && yz) || (xz && yi):
			return inv
		case xi || yi:
			return inf(x.Neg != y.Neg)
		case xz || yz:
			return zero(x.Neg != y.Neg)
		}
		return deferred("finite operands (C01)")
	case "quo", "quoint":
		neg := x.Neg != y.Neg
		switch {
		case xi && yi:
			return inv
		case xi:
			return inf(neg)
		case yi:
			s := zero(neg)
			s.flagsLoose = true // apd reports Clamped here
			return s
		case yz && xz:
			return spec{defined: true, nan: true, flags: apd.DivisionUndefined}
		case yz:
			s := inf(neg)
			s.flags = apd.DivisionByZero
			return s
		case xz:
			return zero(neg)
		}
		return deferred("finite operands (C01/C10)")
	case "rem":
		switch {
		case xi:
			return inv
		case yi:
			s := val(x)
			s.flagsLoose = true
			return s
		case yz && xz:
			return spec{defined: true, nan: true, flags: apd.DivisionUndefined}
		case yz:
			return inv
		case xz:
			return zero(x.Neg)
		}
		return deferred("finite operands (C10)")
	case "abs":
		if xi {
			return inf(false)
		}
		if xz {
			return zero(false)
		}
	case "neg":
		if xi {
			return inf(!x.Neg)
		}
		if xz {
			s := zero(false)
			s.altZero = true
			return s
		}
	case "round", "reduce", "rtiv", "rtie":
		if xi {
			return inf(x.Neg)
		}
		if xz {
			s := zero(x.Neg)
			s.flagsLoose = true
			return s
		}
	case "ceil", "floor":
		if xi {
			return inf(x.Neg)
		}
		if xz {
			s := zero(x.Neg)
			s.altZero = true
			s.flagsLoose = true
			return s
		}
	case "quantize":
		if xi {
			return inv
		}
		return deferred("finite operand (C09)")
	case "cmp":
		c := dec.Cmp(x, y)
		return val(dec.FromInt(int64(c), 0))
	case "sqrt":
		switch {
		case xi && x.Neg:
			return inv
		case xi:
			return inf(false)
		case xz:
			return zero(x.Neg)
		case x.Neg:
			return inv
		}
	case "cbrt":
		switch {
		case xi && !x.Neg:
			return inf(false)
		case xi:
			return spec{why: "Cbrt(-Infinity) has no specification"}
		case xz:
			return zero(x.Neg)
		}
	case "exp":
		switch {
		case xi && x.Neg:
			return zero(false)
		case xi:
			return inf(false)
		case xz:
			return val(one)
		}
	case "ln", "log10":
		switch {
		case xz:
			return inf(true)
		case x.Neg: // includes -Infinity
			return inv
		case xi:
			return inf(false)
		case dec.Cmp(x, one) == 0:
			return zero(false)
		}
	case "pow":
		yIsInt, yOdd := isOddInt(y)
		negRes := x.Neg && yIsInt && yOdd
		ys := y.Sign()
		switch {
		case xi:
			switch {
			case ys == 0:
				return val(one)
			case x.Neg && (yi || !yIsInt):
				return inv
			case ys < 0:
				return zero(negRes)
			default:
				return inf(negRes)
			}
		case xz:
			switch {
			case ys == 0:
				return inv
			case ys > 0:
				return zero(negRes)
			default:
				return inf(negRes)
			}
		case ys == 0:
			return val(one)
		case yi:
			if x.Neg {
				return inv
			}
			c := dec.Cmp(x, one)
			switch {
			case c == 0:
				s := val(one)
				s.flagsLoose = true // the GDA vectors flag 1**Inf Inexact|Rounded
				return s
			case (c < 0) != y.Neg:
				return zero(false)
			default:
				return inf(false)
			}
		case x.Neg && !yIsInt:
			return inv
		case dec.Cmp(y, one) == 0 && !x.Neg:
			return deferred("x**1 (C12)")
		}
		return deferred("finite operands (C12)")
	}
	_ = sx
	return deferred("finite operand (other properties)")
}

var c08Ops = []string{"add", "sub", "mul", "quo", "quoint", "rem", "abs", "neg", "round", "quantize", "rtiv", "rtie", "ceil", "floor",
	"reduce", "cmp", "sqrt", "cbrt", "exp", "ln", "log10", "pow"}

func isBinaryOp(op string) bool {
	switch op {
	case "add", "sub", "mul", "quo", "quoint", "rem", "cmp", "pow":
		return true
	}
	return false
}

// c08Values is the operand grid.
func c08Values() []dec.D {
	var vs []dec.D
	for _, neg := range []bool{false, true} {
		vs = append(vs, dec.Special(dec.NaN, neg), dec.Special(dec.SNaN, neg), dec.Special(dec.Inf, neg))
		// infinities as the library itself produces them on overflow: the form is
		// Infinite, the rounded coefficient and the exponent are left in place
		vs = append(vs, dec.D{Form: dec.Inf, Neg: neg, C: big.NewInt(1234567891), E: 0}, dec.D{Form: dec.Inf, Neg: neg, C: big.NewInt(70000), E: 96})
		for _, e := range []int64{-3, 0, 4} {
			vs = append(vs, dec.Zero(neg, e))
		}
		for _, f := range []struct {
			c, e int64
		}{{5, -1}, {1, 0}, {100, -2}, {7, 0}, {8, 0}, {25, -1}, {1, 1}, {3, 2}, {70, -1}, {12345, -2}} {
			vs = append(vs, dec.D{Form: dec.Finite, Neg: neg, C: big.NewInt(f.c), E: f.e})
		}
		// NaNs made out of an existing value (the Form was changed by hand): the
		// exponent field and the coefficient are still there and mean nothing
		vs = append(vs, dec.D{Form: dec.SNaN, Neg: neg, C: big.NewInt(12), E: 3}, dec.D{Form: dec.NaN, Neg: neg, C: big.NewInt(7), E: -2})
		// small odd integers written with 18, 19 and 20 fraction zeros (coefficient
		// next to 2^64): their parity decides the sign of powers of -0 and -Inf
		for _, v := range [][2]int64{{3, 18}, {1, 19}, {1, 20}} {
			vs = append(vs, dec.D{Form: dec.Finite, Neg: neg, C: new(big.Int).Mul(big.NewInt(v[0]), dec.Pow10(v[1])), E: -v[1]})
		}
		// one, written with more digits than the power-of-ten table has entries
		// (the 150-digit quotient 7/7): where x is compared with 1, its length must not matter
		vs = append(vs, dec.D{Form: dec.Finite, Neg: neg, C: new(big.Int).Set(dec.Pow10(150)), E: -150})
	}
	return vs
}

var c08Contexts = []dec.Ctx{
	{P: 5, Emin: -99, Emax: 99},
	{P: 5, Emin: -2, Emax: 5},
	{P: 9, Emin: -383, Emax: 384},
}

type c08Cell struct {
	Op   string `json:"op"`
	X    string `json:"x"`
	Y    string `json:"y,omitempty"`
	Mode string `json:"mode"`
	Want string `json:"want"`
	Flag string `json:"flags"`
}

func c08Case(t *mon.T, op string, c dec.Ctx, traps apd.Condition, x, y dec.D, pattern int, dump *[]c08Cell) {
	s := specialSpec(op, x, y, c.Mode)
	t.Eval()
	if !s.defined {
		t.Skip("deferred: " + s.why)
		return
	}
	ctx := br.Context(c, traps)
	o, _, _ := CallAliased(op, ctx, x, y, 0, pattern, nil)
	t.Count("cell/" + op)
	t.Count("alias/" + aliasNames[pattern])
	t.Nontrivial(fmt.Sprintf("%s|%s|%s|%v|%d|%s|%d", op, x.FullString(), y, c, traps, c.Mode, pattern))
	fail := func(why string) {
		d := detail(op, c, x, y, o, why)
		d["traps"] = br.FlagNames(traps)
		d["alias"] = aliasNames[pattern]
		if s.nan {
			d["expected"] = "NaN"
		} else {
			d["expected"] = s.res.FullString()
		}
		d["expected_flags"] = br.FlagNames(s.flags)
		t.Fail("special-value-mismatch", d)
	}
	if dump != nil {
		w := "NaN"
		if !s.nan {
			w = s.res.FullString()
		}
		*dump = append(*dump, c08Cell{Op: op, X: x.FullString(), Y: fmt.Sprint(y.FullString()), Mode: c.Mode, Want: w, Flag: br.FlagNames(s.flags)})
	}
	if werr := br.WellFormed(o.Raw); werr != nil {
		fail("ill-formed result: " + werr.Error())
		return
	}
	if s.nan {
		if o.Res.Form != dec.NaN {
			fail("expected a quiet NaN")
			return
		}
		if s.nanNeg != nil && o.Res.Neg != *s.nanNeg {
			fail("propagated NaN lost the sign of its source operand")
			return
		}
	} else {
		if !dec.SameValue(s.res, o.Res) && !(s.altZero && s.res.IsZero() && o.Res.IsZero()) {
			fail("wrong result")
			return
		}
	}
	strict := apd.InvalidOperation | apd.DivisionByZero | apd.DivisionUndefined | apd.DivisionImpossible
	if !s.flagsLoose {
		strict |= apd.Inexact | apd.Overflow | apd.Underflow | apd.Subnormal
	}
	if o.Flags&strict != s.flags&strict {
		fail(fmt.Sprintf("wrong conditions: got %s", br.FlagNames(o.Flags)))
		return
	}
	if why := CheckImplications(o); why != "" {
		fail(why)
		return
	}
	if traps != 0 {
		// a trapped condition must surface as an error and nothing else may
		if (o.Flags&traps != 0) != (o.Err != nil) {
			fail(fmt.Sprintf("error %v does not match flags&traps", o.Err))
		}
	} else if o.Err != nil {
		fail("error with empty trap set")
	}
	if t.WantSample() {
		t.Sample(map[string]interface{}{"op": op, "x": x.String(), "y": fmt.Sprint(y), "ctx": c.String(), "result": o.Res.String(), "flags": br.FlagNames(o.Flags)})
	}
}

func runC08(r *mon.Run) {
	r.Rule = "exhaustive grid: operand classes {NaN, sNaN, -NaN, -sNaN, +/-Inf (canonical, and with the coefficient and exponent an overflow leaves behind), +/-0 with exponents -3/0/4, finite +/-{0.5, 1, 1.00, 1.000..0 (151 digits), 7, 8, 2.5, " +
		"1E+1, 3E+2, 7.0, 123.45}} for both operands x 22 Context operations x 8 rounding modes x 3 contexts x traps {none, default} x aliasing patterns {distinct, d==x, d==y, x==y, d==x==y}; each " +
		"cell with at least one special or zero operand (or a cell the table defines) is compared with a table written from the GDA " +
		"specification (form, sign, InvalidOperation/DivisionByZero/DivisionUndefined and the absence of rounding flags); cells the " +
		"specification leaves open are listed as deferred. distinct_nontrivial = defined cells visited."
	r.Assumptions = []string{"the special-value table in internal/props/c08.go is a faithful transcription of the GDA rules (cross-checked against CPython's decimal at development time, tools/xcheck_c08.py)",
		"Cbrt(-Infinity) and the flags of 1**Infinity are unconstrained"}
	vs := c08Values()
	n := int64(len(vs))
	var dump *[]c08Cell
	var cells []c08Cell
	dumpPath := os.Getenv("VERIF_C08_DUMP")
	type job struct {
		op   string
		x, y dec.D
	}
	var jobs []job
	for _, op := range c08Ops {
		if isBinaryOp(op) {
			for i := int64(0); i < n*n; i++ {
				jobs = append(jobs, job{op, vs[i/n], vs[i%n]})
			}
		} else {
			for i := int64(0); i < n; i++ {
				jobs = append(jobs, job{op, vs[i], dec.D{}})
			}
		}
	}
	if dumpPath != "" {
		dump = &cells
		r.Workers = 1
	}
	r.Parallel("grid", int64(len(jobs)), func(t *mon.T) {
		j := jobs[t.Index]
		for ci, c := range c08Contexts {
			for _, m := range dec.Modes {
				c.Mode = m
				for _, traps := range []apd.Condition{0, apd.DefaultTraps} {
					var dp *[]c08Cell
					if dump != nil && ci == 0 && traps == 0 {
						dp = dump
					}
					c08Case(t, j.op, c, traps, j.x, j.y, AliasDistinct, dp)
					c08Case(t, j.op, c, traps, j.x, j.y, AliasDX, nil)
					if j.y.C != nil {
						c08Case(t, j.op, c, traps, j.x, j.y, AliasDY, nil)
						if dec.SameRepr(j.x, j.y) {
							c08Case(t, j.op, c, traps, j.x, j.y, AliasXY, nil)
							c08Case(t, j.op, c, traps, j.x, j.y, AliasDXY, nil)
						}
					}
				}
			}
		}
	})
	r.Exhaustive = true
	r.Extra("grid_cells", len(jobs)*len(c08Contexts)*8*2)
	if dumpPath != "" {
		b, _ := json.Marshal(cells)
		os.WriteFile(dumpPath, b, 0o644)
	}
	for _, op := range c08Ops {
		r.Require("cell/"+op, 50)
	}
}
