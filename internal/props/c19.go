package props

import (
	"fmt"
	"math/big"

	"github.com/cockroachdb/apd/v3"

	"verif/internal/br"
	"verif/internal/dec"
	"verif/internal/gen"
	"verif/internal/mon"
)

func init() {
	register("C19", runC19)
}

// refDigits is the oracle: length of the decimal text of |b|.
func refDigits(b *big.Int) int64 {
	s := new(big.Int).Abs(b).String()
	return int64(len(s))
}

func numDigitsCheck(t *mon.T, b *big.Int, how string) {
	var a apd.BigInt
	switch t.Rng.Intn(3) {
	case 0:
		a.SetMathBigInt(b)
	case 1:
		a.SetString(b.String(), 10)
	default:
		// arrive at the value through arithmetic (representation may be heap even if small)
		var one apd.BigInt
		one.SetInt64(1)
		a.SetMathBigInt(new(big.Int).Add(b, big.NewInt(1)))
		a.Sub(&a, &one)
	}
	want := refDigits(b)
	var got int64
	func() {
		defer func() {
			if r := recover(); r != nil {
				t.Fail("numdigits-panic", map[string]interface{}{"how": how, "bits": b.BitLen(), "sign": b.Sign(), "panic": fmt.Sprint(r)})
				got = -1
			}
		}()
		got = apd.NumDigits(&a)
	}()
	t.Eval()
	t.Count("numdigits/" + how)
	if b.Sign() < 0 {
		t.Count("numdigits-negative")
	}
	if b.BitLen() > 128 {
		t.Count("numdigits-above-128-bits")
	}
	if b.BitLen() >= 64 || b.Sign() < 0 || how != "random" {
		t.Nontrivial(fmt.Sprintf("nd|%s|%d|%d|%x", how, b.BitLen(), b.Sign(), new(big.Int).Rsh(new(big.Int).Abs(b), uint(max0(b.BitLen()-64)))))
	}
	if got == -1 {
		return
	}
	if got != want {
		d := map[string]interface{}{"how": how, "bits": b.BitLen(), "sign": b.Sign(), "got": got, "want": want}
		if b.BitLen() < 600 {
			d["value"] = b.String()
		}
		t.Fail("numdigits-wrong", d)
	}
	if t.WantSample() {
		t.Sample(map[string]interface{}{"op": "NumDigits", "bits": b.BitLen(), "sign": b.Sign(), "digits": got, "how": how})
	}
}

func max0(a int) int {
	if a < 0 {
		return 0
	}
	return a
}

// reduceDecCase checks Decimal.Reduce and Context.Reduce counts and results.
func reduceDecCase(t *mon.T) {
	r := t.Rng
	c := gen.Context(r)
	// operand: coefficient body (no trailing zero) times 10^z
	body := gen.Coeff(r, c.P)
	for new(big.Int).Mod(body, bTen).Sign() == 0 {
		body.Quo(body, bTen)
	}
	var z int64
	switch r.Pick(30, 40, 15, 10, 5) {
	case 0:
		z = 0
	case 1:
		z = int64(r.Intn(41))
	case 2:
		z = int64(r.Intn(130))
	case 3:
		z = int64(100 + r.Intn(600))
	default:
		z = int64(600 + r.Intn(2400))
	}
	x := dec.D{Form: dec.Finite, Neg: r.Bool(), C: new(big.Int).Mul(body, dec.Pow10(z)), E: r.Range(-50, 50) - z}
	isZero := false
	if r.Chance(1, 12) {
		x = gen.Zero(r)
		isZero = true
		z = 0
	}
	ax := br.ToApd(x)
	// Decimal.Reduce into two different destination pre-states
	d1 := new(apd.Decimal)
	d2 := br.ToApd(dec.D{Form: dec.Finite, Neg: true, C: new(big.Int).Mul(big.NewInt(12345), dec.Pow10(int64(r.Intn(30)))), E: -7})
	if r.Chance(1, 4) {
		d2 = br.ToApd(dec.Special(dec.NaN, true))
	}
	_, n1 := d1.Reduce(ax)
	_, n2 := d2.Reduce(ax)
	t.EvalN(2)
	t.Count("reduce/decimal")
	fail := func(kind, why string, got *apd.Decimal, n int) {
		t.Fail(kind, map[string]interface{}{"op": "Decimal.Reduce", "x": x.FullString(), "got": br.FromApd(got).FullString(), "count": n, "why": why})
	}
	if !dec.SameRepr(br.FromApd(ax), x) {
		fail("operand-modified", "operand changed by Reduce", ax, n1)
	}
	g1, g2 := br.FromApd(d1), br.FromApd(d2)
	if n1 != n2 || !dec.SameRepr(g1, g2) {
		fail("reduce-depends-on-destination", fmt.Sprintf("count/result differ between destination pre-states: %d vs %d, %s vs %s", n1, n2, g1, g2), d2, n2)
	}
	if isZero {
		t.Count("reduce/zero")
		if !g1.IsZero() || g1.E != 0 || g1.Form != dec.Finite {
			fail("reduce-zero", "zero must become 0E0", d1, n1)
		}
	} else {
		if z > 0 {
			t.Nontrivial("reduce|" + x.FullString())
			t.Count("reduce/stripped")
		}
		if z >= 256 {
			t.Count("reduce/stripped-256+")
		}
		if int64(n1) != z {
			fail("reduce-count", fmt.Sprintf("count %d, operand has %d trailing zeros", n1, z), d1, n1)
		}
		if !dec.SameValue(g1, x) {
			fail("reduce-value", "result not equal to operand", d1, n1)
		} else if g1.C.Cmp(body) != 0 || g1.E != x.E+z {
			fail("reduce-trailing-zero", "coefficient not fully stripped", d1, n1)
		}
	}
	// Context.Reduce
	ctx := br.Context(c, 0)
	d3 := new(apd.Decimal)
	n3, res, err := ctx.Reduce(d3, ax)
	t.Eval()
	t.Count("reduce/context")
	if sysFlags&res != 0 || err != nil {
		t.Skip("system-limit-or-error")
		return
	}
	g3 := br.FromApd(d3)
	m := ModelReduce(c, x)
	if m.Skip != "" {
		t.Skip(m.Skip)
		return
	}
	o := Outcome{Res: g3, Flags: res, Err: err, Raw: d3}
	if why := CheckValue(m, o); why != "" {
		fail("reduce-value", "Context.Reduce: "+why+" ctx "+c.String(), d3, n3)
		return
	}
	if g3.Form == dec.Finite && g3.C.Sign() != 0 && new(big.Int).Mod(g3.C, bTen).Sign() == 0 {
		fail("reduce-trailing-zero", "Context.Reduce left a trailing zero, ctx "+c.String(), d3, n3)
	}
	if g3.IsZero() && (g3.E != 0 || g3.Neg != x.Neg) {
		fail("reduce-zero", "Context.Reduce zero must be 0E0 with the operand's sign, ctx "+c.String(), d3, n3)
	}
	if res&(apd.Inexact|apd.Rounded) == 0 && !isZero {
		t.Count("reduce/context-no-rounding")
		if int64(n3) != z {
			fail("reduce-count", fmt.Sprintf("Context.Reduce count %d without rounding, operand has %d trailing zeros; ctx %s", n3, z, c), d3, n3)
		}
	} else if res&apd.Inexact != 0 {
		t.Count("reduce/context-rounded")
		t.Nontrivial("creduce|" + c.String() + "|" + x.FullString())
	}
}

func runC19(r *mon.Run) {
	r.Rule = "NumDigits: every bit length 1..130 at 2^k-1, 2^k and at the decimal borders 10^j-1, 10^j, 10^j+1 inside it, both signs; " +
		"10^j-1/10^j/10^j+1 for every j up to 6000 (quick; plus 300 sampled j, and 10^j-1/10^j for every j up to 101000 against the definition) / 101000 (thorough) and for twelve giant j from 150000 to 524288; random values up to tens of thousands of bits; oracle = length of the decimal text of |b|. " +
		"Reduce: coefficients with 0..3000 trailing zeros (uint64 and big paths), zeros of any exponent, values whose rounding carries " +
		"into a power of ten or rounds to zero; two destination pre-states per call. distinct_nontrivial = distinct integers with " +
		"|b| >= 2^64, negative, or at a decimal border; for Reduce, operands with at least one stripped zero or a rounding."
	r.Assumptions = []string{"math/big text conversion is correct"}
	// bit-length boundaries
	r.Parallel("nd-bits", 131, func(t *mon.T) {
		k := uint(t.Index)
		p := new(big.Int).Lsh(bOne, k)
		for _, v := range []*big.Int{new(big.Int).Sub(p, bOne), p, new(big.Int).Add(p, bOne)} {
			for _, s := range []int{1, -1} {
				b := new(big.Int).Set(v)
				if s < 0 {
					b.Neg(b)
				}
				numDigitsCheck(t, b, "bit-boundary")
			}
		}
	})
	maxJ := r.N(6000, 101000)
	r.Parallel("nd-pow10", maxJ, func(t *mon.T) {
		pow10Check(t, t.Index+1)
	})
	r.Extra("numdigits_powers_of_ten_up_to", maxJ)
	if r.Quick() {
		// a sample of the larger lengths (estimates of bits*log10(2) drift with size)
		r.Parallel("nd-pow10-sampled", 300, func(t *mon.T) { pow10Check(t, t.Rng.Range(6001, 101000)) })
		// and every j up to 101000 for the two values that straddle the digit
		// boundary, 10^j - 1 (j digits) and 10^j (j+1 digits); the oracle here is
		// the definition itself, so no text conversion is needed
		const block = 50
		r.Parallel("nd-pow10-dense", (101000+block-1)/block, func(t *mon.T) {
			j0 := t.Index*block + 1
			p := new(big.Int).Exp(bTen, big.NewInt(j0), nil)
			for j := j0; j < j0+block && j <= 101000; j++ {
				m := new(big.Int).Sub(p, bOne)
				var a, b apd.BigInt
				a.SetMathBigInt(m)
				b.SetMathBigInt(p)
				ga, gb := apd.NumDigits(&a), apd.NumDigits(&b)
				t.EvalN(2)
				if ga != j || gb != j+1 {
					t.Fail("numdigits-wrong", map[string]interface{}{"how": "pow10-dense", "j": j, "got_10^j-1": ga, "want_10^j-1": j, "got_10^j": gb, "want_10^j": j + 1, "bits": p.BitLen()})
					return
				}
				if j%7 == 0 {
					// negative values take a different comparison path
					a.Neg(&a)
					b.Neg(&b)
					if ga, gb = apd.NumDigits(&a), apd.NumDigits(&b); ga != j || gb != j+1 {
						t.Fail("numdigits-wrong", map[string]interface{}{"how": "pow10-dense-negative", "j": j, "got_10^j-1": ga, "got_10^j": gb})
						return
					}
				}
				p.Mul(p, bTen)
			}
			t.Count("numdigits/pow10-dense")
			t.Nontrivial(fmt.Sprintf("dense|%d", j0))
		})
	}
	// integers far beyond anything a Decimal can hold (NumDigits takes any BigInt)
	r.Parallel("nd-giant", 12, func(t *mon.T) {
		j := []int64{150000, 199999, 200000, 200001, 200063, 200064, 200065, 200200, 262144, 300000, 400000, 524288}[t.Index]
		pow10Check(t, j)
		t.Count("numdigits/giant")
	})
	// ... and the lengths at which a power of ten and a power of two nearly
	// coincide (10^j within 2e-6 of 2^n, relatively): there the digit count
	// turns on bits*log10(2) to eight or more significant digits, and an
	// estimate from a rounded constant is off by one. The oracle is the
	// definition: 10^j - 1 has j digits and 10^j has j+1, 2^(n-1) < 10^j <= 2^n - 1.
	bigCoin := gen.CoincidenceExps(101001, r.N(2500000, 8000000), 2e-6)
	r.Extra("numdigits_near_coincidence_lengths", fmt.Sprint(bigCoin))
	r.Parallel("nd-coincidence-giant", int64(len(bigCoin)), func(t *mon.T) {
		j := bigCoin[t.Index]
		p := new(big.Int).Exp(bTen, big.NewInt(j), nil)
		n := uint(p.BitLen())
		for _, c := range []struct {
			v    *big.Int
			want int64
			what string
		}{{new(big.Int).Sub(p, bOne), j, "10^j-1"}, {p, j + 1, "10^j"}, {new(big.Int).Lsh(bOne, n-1), j, "2^(n-1)"},
			{new(big.Int).Sub(new(big.Int).Lsh(bOne, n), bOne), j + 1, "2^n-1"}} {
			var a apd.BigInt
			a.SetMathBigInt(c.v)
			got := apd.NumDigits(&a)
			a.Neg(&a)
			gotNeg := apd.NumDigits(&a)
			t.EvalN(2)
			if got != c.want || gotNeg != c.want {
				t.Fail("numdigits-wrong", map[string]interface{}{"how": "coincidence-giant", "j": j, "bits": n, "value": c.what, "got": got, "got_negated": gotNeg, "want": c.want})
				return
			}
		}
		t.Count("numdigits/coincidence-giant")
		t.Nontrivial(fmt.Sprintf("coin-giant|%d", j))
	})
	r.Require("numdigits/coincidence-giant", 5)
	r.Parallel("nd-random", r.N(60000, 2000000), func(t *mon.T) {
		var bits int
		switch t.Rng.Pick(40, 30, 20, 8, 2) {
		case 0:
			bits = 1 + t.Rng.Intn(130)
		case 1:
			bits = 1 + t.Rng.Intn(300)
		case 2:
			bits = 1 + t.Rng.Intn(2000)
		case 3:
			bits = 1 + t.Rng.Intn(8000)
		default:
			bits = 1 + t.Rng.Intn(40000)
		}
		b := new(big.Int).Rand(rngSource(t.Rng), new(big.Int).Lsh(bOne, uint(bits)))
		b.SetBit(b, bits-1, 1)
		if t.Rng.Bool() {
			b.Neg(b)
		}
		numDigitsCheck(t, b, "random")
	})
	r.Parallel("reduce", r.N(120000, 6000000), reduceDecCase)
	if !r.Quick() {
		// zero runs longer than any power of ten the package will build in one
		// piece (131072, 262143, 300000, 524288 trailing zeros): one such call
		// takes seconds, so these run in the thorough tier only
		runs := []int64{131071, 131072, 200000, 262142, 262143, 262144, 300000, 524288}
		r.Parallel("reduce-giant-zero-runs", int64(len(runs)), func(t *mon.T) {
			z := runs[t.Index]
			m := big.NewInt(t.Rng.Range(1, 99999))
			for new(big.Int).Mod(m, big.NewInt(10)).Sign() == 0 {
				m.Add(m, big.NewInt(1))
			}
			x := dec.D{Form: dec.Finite, Neg: t.Rng.Bool(), C: new(big.Int).Mul(m, dec.Pow10(z)), E: -z / 2}
			var d apd.Decimal
			_, n := d.Reduce(br.ToApd(x))
			t.Eval()
			t.Count("reduce-giant-zero-runs")
			got := br.FromApd(&d)
			if int64(n) != z || got.C.Cmp(m) != 0 || got.E != x.E+z || got.Neg != x.Neg {
				t.Fail("reduce-value", map[string]interface{}{"op": "Decimal.Reduce", "trailing_zeros": z, "count": n, "got_coefficient_digits": dec.NumDigits(got.C), "got_exponent": got.E, "want_exponent": x.E + z})
			}
			t.Nontrivial(fmt.Sprintf("rgz|%d", z))
		})
	}
	r.Serial("pinned", func(t *mon.T) {
		// fixed: negative > 128 bits dereferenced nil
		b, _ := new(big.Int).SetString("-1000000000000000000000000000000000000000000000", 10)
		numDigitsCheck(t, b, "pinned")
		t.Count("pinned")
		// fixed: Context.Reduce(9.95) at two digits returned 10E-1; values rounded to zero kept their exponent
		c := dec.Ctx{P: 2, Emin: -9, Emax: 9, Mode: "half_even"}
		for _, xs := range []string{"995E-2", "-4E-12", "-12000E2"} {
			x, _ := dec.Parse(xs)
			d := new(apd.Decimal)
			n, res, err := br.Context(c, 0).Reduce(d, br.ToApd(x))
			g := br.FromApd(d)
			t.Eval()
			t.Count("pinned")
			m := ModelReduce(c, x)
			if err != nil || CheckValue(m, Outcome{Res: g, Flags: res, Raw: d}) != "" || (g.C.Sign() != 0 && new(big.Int).Mod(g.C, bTen).Sign() == 0) || (g.IsZero() && g.E != 0) {
				t.Fail("reduce-trailing-zero", map[string]interface{}{"x": xs, "ctx": c.String(), "got": g.FullString(), "count": n})
			}
		}
		// fixed: Decimal.Reduce(0.000) read its count from the destination
		z, _ := dec.Parse("0E-3")
		d2 := br.ToApd(dec.FromInt(12345000, 0))
		if _, n := d2.Reduce(br.ToApd(z)); n != 0 {
			t.Fail("reduce-depends-on-destination", map[string]interface{}{"x": "0E-3", "count": n})
		}
		t.Count("pinned")
	})
	for _, cl := range []string{"numdigits/bit-boundary", "numdigits/pow10", "numdigits/random", "numdigits-negative", "numdigits-above-128-bits",
		"reduce/decimal", "reduce/context", "reduce/stripped", "reduce/stripped-256+", "reduce/zero", "reduce/context-rounded", "reduce/context-no-rounding"} {
		r.Require(cl, 100)
	}
}

func pow10Check(t *mon.T, j int64) {
	p := dec.Pow10(j)
	for _, v := range []*big.Int{new(big.Int).Sub(p, bOne), p, new(big.Int).Add(p, bOne)} {
		for _, s := range []int{1, -1} {
			b := new(big.Int).Set(v)
			if s < 0 {
				b.Neg(b)
			}
			numDigitsCheck(t, b, "pow10")
		}
	}
}
