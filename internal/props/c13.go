package props

import (
	"database/sql/driver"
	"fmt"
	"math"
	"math/big"

	"github.com/cockroachdb/apd/v3"

	"verif/internal/br"
	"verif/internal/dec"
	"verif/internal/gda"
	"verif/internal/gen"
	"verif/internal/mon"
	"verif/internal/rng"
)

func init() {
	register("C13", runC13)
	register("C17", runC17)
}

// fullRangeDecimal draws any Decimal within the package limits, with dense
// sampling around the formatting switch-over points.
func fullRangeDecimal(r *rng.R, maxExpForF bool) dec.D {
	if r.Chance(1, 14) {
		return gen.SpecialValue(r)
	}
	var n int64
	switch r.Pick(70, 20, 8, 2) {
	case 0:
		n = int64(1 + r.Intn(20))
	case 1:
		n = int64(1 + r.Intn(60))
	case 2:
		n = int64(180 + r.Intn(40))
	default:
		n = int64(1900 + r.Intn(200))
	}
	cf, _ := new(big.Int).SetString(gen.Digits(r, n), 10)
	if r.Chance(1, 12) {
		cf = new(big.Int)
		n = 1
	} else if r.Chance(1, 8) {
		cf = gen.BoundaryCoeff(r)
		n = dec.NumDigits(cf)
	}
	var e int64
	switch r.Pick(25, 20, 15, 15, 10, 15) {
	case 0: // adjusted exponent around the -6 switch
		e = r.Range(-9, -4) - (n - 1)
	case 1: // exponent around 0
		e = r.Range(-2, 3)
	case 2: // moderate
		e = r.Range(-60, 60)
	case 3: // zero-exception boundary
		e = r.Range(-2003, -1997)
		if r.Bool() {
			e = r.Range(-3, 0)
		}
	case 4: // package limits
		if r.Bool() {
			e = gen.MaxExp - (n - 1) - int64(r.Intn(3))
		} else {
			e = gen.MinExp + int64(r.Intn(3))
		}
	default:
		e = r.Range(gen.MinExp, gen.MaxExp-(n-1))
	}
	if maxExpForF && abs64(e) > 5000 {
		e %= 5000
	}
	if e < gen.MinExp {
		e = gen.MinExp
	}
	if e+n-1 > gen.MaxExp {
		e = gen.MaxExp - (n - 1)
	}
	return dec.D{Form: dec.Finite, Neg: r.Bool(), C: cf, E: e}
}

func textRoundTripCase(t *mon.T) {
	r := t.Rng
	quick := t.R.Quick()
	textRoundTrip(t, fullRangeDecimal(r, quick || r.Chance(9, 10)))
}

// giantTextCase: coefficients with more digits than the exponent range is
// wide (100002..200001), whose exponent keeps the value inside the limits.
// Their scientific form has a fraction of more than 100000 digits.
func giantTextCase(t *mon.T) {
	r := t.Rng
	n := r.Range(100002, 200001)
	if r.Chance(1, 3) {
		n = []int64{100002, 100003, 131072, 200001}[r.Intn(4)]
	}
	cf, _ := new(big.Int).SetString(gen.Digits(r, n), 10)
	e := r.Range(gen.MinExp, gen.MaxExp-(n-1))
	if r.Chance(1, 3) {
		e = []int64{gen.MinExp, gen.MaxExp - (n - 1), -(n - 1), -n / 2}[r.Intn(4)]
	}
	if e < gen.MinExp {
		e = gen.MinExp
	}
	textRoundTrip(t, dec.D{Form: dec.Finite, Neg: r.Bool(), C: cf, E: e})
	t.Count("text/giant-coefficient")
}

// limbWindowCase: coefficients whose quotient by a decimal limb (10^9, 10^18,
// 10^19, their squares) sits at a machine-word boundary (2^31, 2^32, 2^63,
// 2^64 and neighbours): Q*B + R. Digit-by-limb conversion loops that test the
// wrong word for termination go wrong exactly there, and nowhere near the
// powers of two and ten themselves.
func limbWindowCase(t *mon.T) {
	r := t.Rng
	limbs := []int64{9, 18, 19, 38, 27, 36, 57}
	b := dec.Pow10(limbs[r.Intn(len(limbs))])
	q := new(big.Int).Lsh(bOne, []uint{31, 32, 63, 64, 96, 127, 128}[r.Intn(7)])
	q.Add(q, big.NewInt([]int64{0, 0, 0, -1, 1}[r.Intn(5)]))
	if r.Chance(1, 5) {
		q.Mul(q, big.NewInt(r.Range(2, 9)))
	}
	var rem *big.Int
	switch r.Intn(4) {
	case 0:
		rem = new(big.Int)
	case 1:
		rem = new(big.Int).Sub(b, bOne)
	default:
		rem, _ = new(big.Int).SetString(gen.Digits(r, int64(len(b.String())-1)), 10)
	}
	c := new(big.Int).Mul(q, b)
	c.Add(c, rem)
	e := []int64{0, -int64(len(b.String()) - 1), r.Range(-60, 60), r.Range(gen.MinExp, gen.MaxExp-int64(len(c.String())))}[r.Intn(4)]
	textRoundTrip(t, dec.D{Form: dec.Finite, Neg: r.Bool(), C: c, E: e})
	t.Count("text/limb-window")
}

func textRoundTrip(t *mon.T, d dec.D) {
	r := t.Rng
	a := br.ToApd(d)
	t.Count("form/" + d.Form.String())
	if d.Form != dec.Finite || d.E != 0 {
		t.Nontrivial("rt|" + d.FullString())
	}
	type enc struct {
		name string
		s    string
	}
	var encs []enc
	encs = append(encs, enc{"String", a.String()})
	for _, f := range []byte("GgEe") {
		encs = append(encs, enc{"Text(" + string(f) + ")", a.Text(f)})
	}
	mt, err := a.MarshalText()
	if err != nil {
		t.Fail("marshal-error", map[string]interface{}{"d": d.FullString(), "err": err.Error()})
	}
	encs = append(encs, enc{"MarshalText", string(mt)})
	var v driver.Value
	v, err = a.Value()
	if s, ok := v.(string); ok && err == nil {
		encs = append(encs, enc{"Value", s})
	} else {
		t.Fail("value-error", map[string]interface{}{"d": d.FullString(), "err": fmt.Sprint(err)})
	}
	for _, verb := range []string{"%v", "%s", "%G", "%E", "%e", "%g"} {
		encs = append(encs, enc{verb, fmt.Sprintf(verb, a)})
	}
	for _, e := range encs {
		back, _, perr := apd.NewFromString(e.s)
		t.Eval()
		t.Count("enc/" + e.name)
		if perr != nil || back == nil {
			t.Fail("roundtrip-parse-error", map[string]interface{}{"encoding": e.name, "d": d.FullString(), "text": clip(e.s), "err": fmt.Sprint(perr)})
			continue
		}
		if g := br.FromApd(back); !dec.SameRepr(g, d) {
			t.Fail("roundtrip-mismatch", map[string]interface{}{"encoding": e.name, "d": d.FullString(), "text": clip(e.s), "got": g.FullString()})
		}
	}
	// the encoded bytes belong to the caller: they must survive the encoding of
	// other (large, small, negative) values before they are parsed
	for _, other := range []dec.D{
		{Form: dec.Finite, C: new(big.Int).Add(dec.Pow10(int64(45+r.Intn(60))), big.NewInt(r.Range(1, 1<<40))), E: r.Range(-300, 300)},
		{Form: dec.Finite, Neg: true, C: big.NewInt(r.Range(1, 1<<40)), E: r.Range(-30, 30)},
		{Form: dec.Finite, C: new(big.Int).Lsh(big.NewInt(r.Range(1, 1<<40)), uint(100+r.Intn(200))), E: 0},
	} {
		oa := br.ToApd(other)
		_, _ = oa.MarshalText()
		_ = oa.Append(nil, 'G')
		_ = oa.Append(make([]byte, 0, 4), 'E')
	}
	// also through the other parsers
	var u apd.Decimal
	if err := u.UnmarshalText(mt); err != nil || !dec.SameRepr(br.FromApd(&u), d) {
		t.Fail("roundtrip-mismatch", map[string]interface{}{"encoding": "UnmarshalText(MarshalText)", "d": d.FullString(), "got": br.FromApd(&u).FullString(), "err": fmt.Sprint(err)})
	}
	var sc apd.Decimal
	if err := sc.Scan(v); err != nil || !dec.SameRepr(br.FromApd(&sc), d) {
		t.Fail("roundtrip-mismatch", map[string]interface{}{"encoding": "Scan(Value)", "d": d.FullString(), "got": br.FromApd(&sc).FullString(), "err": fmt.Sprint(err)})
	}
	// a parser's result must not depend on what its destination held before:
	// the same texts parsed into destinations that previously held a special
	// value, a payload, a heap-backed or an inline coefficient
	if len(mt) <= 20000 {
		var freshSpecial *dec.D
		if fb, _, ferr := apd.NewFromString(encs[0].s); ferr == nil && fb != nil {
			f := br.FromApd(fb)
			freshSpecial = &f
		}
		for k := 0; k < 3; k++ {
			pre, preName := destPreState(r)
			dst := br.ToApd(pre)
			var perr error
			var how string
			switch k {
			case 0:
				how = "UnmarshalText"
				perr = dst.UnmarshalText(mt)
			case 1:
				e := encs[r.Intn(6)]
				how = "SetString(" + e.name + ")"
				_, _, perr = dst.SetString(e.s)
			default:
				how = "Scan"
				if r.Bool() {
					perr = dst.Scan(v)
				} else {
					perr = dst.Scan([]byte(encs[0].s))
				}
			}
			t.Eval()
			t.Count("dirty-destination/" + preName)
			g := br.FromApd(dst)
			// all four fields, for special values too: what a parser leaves in the
			// coefficient and exponent of a NaN or an infinity is what it leaves
			// there when the destination is fresh
			sameRaw := g.Form == d.Form && g.Neg == d.Neg
			if sameRaw && d.Form != dec.Finite && freshSpecial != nil {
				sameRaw = g.E == freshSpecial.E && g.C.Cmp(freshSpecial.C) == 0
			}
			if perr != nil || !sameRaw || !dec.SameRepr(g, d) || dst.String() != encs[0].s {
				t.Fail("roundtrip-mismatch", map[string]interface{}{"encoding": how + " into a used destination", "d": d.FullString(), "destination_held": pre.FullString(), "got": g.FullString(), "got_coefficient": clip(g.C.String()), "got_exponent": g.E, "got_string": clip(dst.String()), "err": fmt.Sprint(perr)})
			}
		}
	}
	// 'f' keeps the numeric value and the sign
	if d.Form != dec.Finite || abs64(d.E) <= 5000 {
		for _, fs := range []string{a.Text('f'), fmt.Sprintf("%f", a), fmt.Sprintf("%F", a)} {
			back, _, perr := apd.NewFromString(fs)
			t.Eval()
			t.Count("enc/f")
			if perr != nil || back == nil {
				t.Fail("roundtrip-parse-error", map[string]interface{}{"encoding": "f", "d": d.FullString(), "text": clip(fs), "err": fmt.Sprint(perr)})
				continue
			}
			if g := br.FromApd(back); !dec.SameValue(g, d) {
				t.Fail("roundtrip-mismatch", map[string]interface{}{"encoding": "f", "d": d.FullString(), "text": clip(fs), "got": g.FullString()})
			}
		}
	}
	// independent check of String against the specification's writer
	if want := gda.SciString(d); encs[0].s != want {
		t.Fail("string-not-scientific", map[string]interface{}{"d": d.FullString(), "got": clip(encs[0].s), "want": clip(want)})
	}
	if t.WantSample() {
		t.Sample(map[string]interface{}{"d": d.String(), "String": clip(encs[0].s), "encodings_checked": len(encs) + 5})
	}
}

func clip(s string) string {
	if len(s) > 120 {
		return fmt.Sprintf("%s...(%d bytes)...%s", s[:50], len(s), s[len(s)-40:])
	}
	return s
}

func composeCase(t *mon.T) {
	r := t.Rng
	d := fullRangeDecimal(r, true)
	a := br.ToApd(d)
	before := reprOf(a)
	var buf []byte
	switch r.Intn(4) {
	case 0:
		buf = nil
	case 1:
		buf = make([]byte, 0, r.Intn(8))
	case 2:
		buf = make([]byte, r.Intn(40), 64)
	default:
		buf = make([]byte, 0, 1024)
	}
	form, neg, coef, exp := a.Decompose(buf)
	t.Eval()
	t.Count("compose/" + d.Form.String())
	t.Nontrivial("cd|" + d.FullString())
	if reprOf(a) != before {
		t.Fail("operand-modified", map[string]interface{}{"op": "Decompose", "d": d.FullString()})
	}
	for k := 0; k < 2; k++ {
		dst := new(apd.Decimal)
		if k == 1 {
			pre, _ := destPreState(r)
			dst = br.ToApd(pre)
		}
		if err := dst.Compose(form, neg, coef, exp); err != nil {
			t.Fail("compose-error", map[string]interface{}{"d": d.FullString(), "err": err.Error()})
			continue
		}
		want := d
		if d.Form == dec.SNaN {
			want = dec.Special(dec.NaN, d.Neg) // documented: signaling NaN becomes quiet
		}
		got := br.FromApd(dst)
		if !dec.SameRepr(got, want) || (got.IsNaN() && got.C.Sign() != 0) {
			t.Fail("compose-mismatch", map[string]interface{}{"d": d.FullString(), "got": got.FullString(), "dirty_destination": k == 1, "form": form, "neg": neg, "coef_len": len(coef), "exp": exp})
		}
	}
}

// nearestFloat is the oracle for decimal -> float64: the exactly rounded
// nearest float64 (ties to even) of a finite decimal, via big.Float parsing
// at high precision being avoided: uses big.Rat.Float64 which is exact.
func nearestFloat(d dec.D) float64 {
	if d.C.Sign() == 0 {
		if d.Neg {
			return math.Copysign(0, -1)
		}
		return 0
	}
	adj := d.Adj()
	if adj > 310 {
		if d.Neg {
			return math.Inf(-1)
		}
		return math.Inf(1)
	}
	if adj < -345 {
		if d.Neg {
			return math.Copysign(0, -1)
		}
		return 0
	}
	r := new(big.Rat)
	if d.E >= 0 {
		r.SetInt(new(big.Int).Mul(d.C, dec.Pow10(d.E)))
	} else {
		r.SetFrac(d.C, dec.Pow10(-d.E))
	}
	f, _ := r.Float64()
	if d.Neg {
		f = -f
	}
	return f
}

func floatBits(r *rng.R) float64 {
	switch r.Pick(35, 10, 10, 10, 10, 15, 10) {
	case 0:
		return math.Float64frombits(r.U64())
	case 1: // subnormals
		return math.Float64frombits(r.U64() & 0x800fffffffffffff)
	case 2: // powers of two
		return math.Ldexp(1, int(r.Range(-1074, 1023)))
	case 3:
		return []float64{0, math.Copysign(0, -1), math.Inf(1), math.Inf(-1), math.NaN(), math.MaxFloat64, math.SmallestNonzeroFloat64, 1, -1, 0.1, 1e23, 5e-324, 2.2250738585072014e-308}[r.Intn(13)]
	case 4: // small integers and simple decimals
		return float64(r.Range(-100000, 100000)) / float64([]int{1, 10, 100, 1000, 8}[r.Intn(5)])
	case 5: // neighbours of decimal round numbers
		f := float64(r.Range(1, 9999)) * math.Pow(10, float64(r.Range(-300, 300)))
		return math.Nextafter(f, f*float64(r.Range(0, 2)))
	default:
		return math.Float64frombits(0x3ff0000000000000 + (r.U64() & 0xffff))
	}
}

func floatRoundTripCase(t *mon.T) {
	r := t.Rng
	f := floatBits(r)
	var d apd.Decimal
	_, err := d.SetFloat64(f)
	t.Eval()
	t.Count("float/set")
	fd := map[string]interface{}{"float_bits": fmt.Sprintf("%016x", math.Float64bits(f)), "float": fmt.Sprint(f)}
	if err != nil {
		fd["err"] = err.Error()
		t.Fail("setfloat-error", fd)
		return
	}
	g := br.FromApd(&d)
	fd["decimal"] = g.FullString()
	back, berr := d.Float64()
	switch {
	case math.IsNaN(f):
		if g.Form != dec.NaN && g.Form != dec.SNaN {
			t.Fail("float-roundtrip", fd)
		}
		if berr == nil && !math.IsNaN(back) {
			t.Fail("float-roundtrip", fd)
		}
		return
	case math.IsInf(f, 0):
		if g.Form != dec.Inf || g.Neg != (f < 0) || !math.IsInf(back, 0) || (back < 0) != (f < 0) {
			t.Fail("float-roundtrip", fd)
		}
		return
	}
	t.Nontrivial("f|" + fmt.Sprintf("%016x", math.Float64bits(f)))
	if berr != nil || math.Float64bits(back) != math.Float64bits(f) {
		fd["back"] = fmt.Sprint(back)
		fd["err"] = fmt.Sprint(berr)
		t.Fail("float-roundtrip", fd)
		return
	}
	// independent: the stored decimal converts to f exactly-rounded, and no
	// shorter coefficient does.
	if g.Form != dec.Finite || math.Float64bits(nearestFloat(g)) != math.Float64bits(f) {
		t.Fail("setfloat-inexact", fd)
		return
	}
	if f != 0 {
		n := g.Digits()
		if new(big.Int).Mod(g.C, bTen).Sign() == 0 && n > 1 {
			fd["why"] = "coefficient has a trailing zero"
			t.Fail("setfloat-not-shortest", fd)
			return
		}
		if n > 1 {
			lo := new(big.Int).Quo(g.C, bTen)
			hi := new(big.Int).Add(lo, bOne)
			for _, cand := range []*big.Int{lo, hi} {
				cd := dec.D{Form: dec.Finite, Neg: g.Neg, C: cand, E: g.E + 1}
				if math.Float64bits(nearestFloat(cd)) == math.Float64bits(f) {
					fd["why"] = "a shorter coefficient also converts to the same float: " + cd.FullString()
					t.Fail("setfloat-not-shortest", fd)
					return
				}
			}
		}
		t.Count("float/shortest-checked")
	}
	if t.WantSample() {
		t.Sample(fd)
	}
}

func runC13(r *mon.Run) {
	r.Rule = "cases: Decimals of all forms and signs, coefficient lengths 1..60 and ~200/~2000 digits (and a stratum of 100002..200001 digits whose exponent keeps the value within the limits; and coefficients Q*B+R with B a decimal limb 10^9..10^57 and Q at a machine-word boundary), exponents over the whole +/-100000 range with " +
		"dense sampling at the switch-over points (adjusted exponent -5..-8, exponent -2..3, zeros with exponent -1997..-2003); each is encoded " +
		"by String, Text G/g/E/e, MarshalText, Value and the %v %s %G %E %e %g verbs and parsed back (field-identical), by Text('f')/%f/%F " +
		"(numerically equal, same sign); the same texts are also parsed by UnmarshalText, SetString and Scan into destinations that previously held " +
		"NaN/sNaN/Inf/-0E-7/a payload/a heap-backed or inline coefficient, and all four fields must equal those of the parse into a fresh Decimal; and through Decompose/Compose with buffers of every capacity class into clean and dirty destinations; " +
		"float64: random bit patterns, subnormals, powers of two, decimal neighbours, +/-0, +/-Inf, NaN through SetFloat64/Float64, with an " +
		"independent big.Rat nearest-float oracle for exactness and shortest-ness. distinct_nontrivial = distinct values with exponent != 0 or non-finite form, and distinct finite floats."
	r.Assumptions = []string{"NaNs are generated in their canonical shape; infinities also in the shape an overflow leaves behind (their coefficient and exponent carry no meaning and are not compared)",
		"Text('f') is exercised for |exponent| <= 5000 (longer outputs are legitimate but quadratic in test time)", "big.Rat.Float64 is exactly rounded"}
	r.Parallel("text", r.N(120000, 8000000), textRoundTripCase)
	r.Parallel("text-giant", r.N(24, 600), giantTextCase)
	r.Require("text/giant-coefficient", 20)
	r.Parallel("text-limb-window", r.N(20000, 1000000), limbWindowCase)
	r.Require("text/limb-window", 5000)
	r.Parallel("compose", r.N(80000, 4000000), composeCase)
	r.Parallel("float", r.N(150000, 10000000), floatRoundTripCase)
	for _, cl := range []string{"form/Finite", "form/Infinite", "form/NaN", "form/sNaN", "enc/String", "enc/%v", "enc/f", "compose/Finite", "compose/sNaN", "float/set", "float/shortest-checked"} {
		r.Require(cl, 500)
	}
}

// ------------------------------------------------------------------ C17

func int64Case(t *mon.T) {
	r := t.Rng
	// coefficients around the int64 boundaries times powers of ten
	bases := []*big.Int{big.NewInt(0), big.NewInt(math.MaxInt64), new(big.Int).Neg(big.NewInt(math.MinInt64)), dec.Pow10(18), dec.Pow10(19),
		new(big.Int).Lsh(bOne, 64), big.NewInt(int64(r.U64() >> 1)), big.NewInt(r.Range(0, 1000000))}
	v := new(big.Int).Add(bases[r.Intn(len(bases))], big.NewInt(r.Range(-3, 3)))
	v.Abs(v)
	neg := r.Bool()
	k := r.Range(-25, 25)
	var d dec.D
	switch r.Intn(4) {
	case 0: // value v exactly, written with trailing zeros: v*10^z E-z
		z := int64(r.Intn(25))
		d = dec.D{Form: dec.Finite, Neg: neg, C: new(big.Int).Mul(v, dec.Pow10(z)), E: -z}
	case 1: // v / 10^k or v * 10^k
		d = dec.D{Form: dec.Finite, Neg: neg, C: v, E: k}
	case 2: // strip trailing zeros of v into the exponent
		c := new(big.Int).Set(v)
		e := int64(0)
		for c.Sign() != 0 && new(big.Int).Mod(c, bTen).Sign() == 0 {
			c.Quo(c, bTen)
			e++
		}
		d = dec.D{Form: dec.Finite, Neg: neg, C: c, E: e}
	default: // fractional variants
		d = dec.D{Form: dec.Finite, Neg: neg, C: new(big.Int).Add(new(big.Int).Mul(v, dec.Pow10(3)), big.NewInt(r.Range(0, 999))), E: -3}
	}
	if r.Chance(1, 20) {
		d = dec.Zero(neg, r.Range(-30, 30))
	}
	a := br.ToApd(d)
	got, err := a.Int64()
	t.Eval()
	t.Count("int64")
	// oracle
	var exact *big.Int
	isInt := false
	if d.C.Sign() == 0 {
		exact, isInt = new(big.Int), true
	} else if d.E >= 0 {
		exact, isInt = new(big.Int).Mul(d.C, dec.Pow10(d.E)), true
	} else {
		q, rem := new(big.Int).QuoRem(d.C, dec.Pow10(-d.E), new(big.Int))
		if rem.Sign() == 0 {
			exact, isInt = q, true
		}
	}
	if isInt && d.Neg {
		exact.Neg(exact)
	}
	inRange := isInt && exact.IsInt64()
	fd := map[string]interface{}{"op": "Int64", "d": d.FullString(), "got": got, "err": fmt.Sprint(err)}
	if inRange {
		t.Count("int64/in-range")
		t.Nontrivial("i|" + d.FullString())
		if err != nil || got != exact.Int64() {
			fd["want"] = exact.String()
			t.Fail("int64-wrong", fd)
		}
	} else {
		t.Count("int64/error-expected")
		if err == nil {
			fd["why"] = "success outside [MinInt64, MaxInt64] or on a non-integer"
			t.Fail("int64-wrong", fd)
		}
	}
	// constructors are exact
	iv := int64(r.U64())
	e := int32(r.Range(-100, 100))
	chk := func(name string, x *apd.Decimal, wantE int32) {
		t.Eval()
		g := br.FromApd(x)
		w := big.NewInt(iv)
		wneg := w.Sign() < 0
		w.Abs(w)
		if g.Form != dec.Finite || g.C.Cmp(w) != 0 || (g.Neg != wneg && w.Sign() != 0) || g.E != int64(wantE) {
			t.Fail("constructor-inexact", map[string]interface{}{"op": name, "v": iv, "e": wantE, "got": g.FullString()})
		}
	}
	pre, _ := destPreState(r)
	x1 := br.ToApd(pre)
	x1.SetInt64(iv)
	chk("SetInt64", x1, 0)
	chk("New", apd.New(iv, e), e)
	x2 := br.ToApd(pre)
	x2.SetFinite(iv, e)
	chk("SetFinite", x2, e)
	bv := bigValue(r)
	arg := new(apd.BigInt).SetMathBigInt(bv)
	nb := apd.NewWithBigInt(arg, e)
	g := br.FromApd(nb)
	t.Eval()
	if g.Form != dec.Finite || g.C.CmpAbs(bv) != 0 || g.C.Sign() < 0 || (g.Neg != (bv.Sign() < 0)) || g.E != int64(e) {
		t.Fail("constructor-inexact", map[string]interface{}{"op": "NewWithBigInt", "v": bv.String(), "got": g.FullString()})
	}
	// the Decimal represents the value its argument had: what the caller does
	// with the argument afterwards (an accumulator that keeps growing) must
	// not reach it, and the argument must be left as it was
	if arg.String() != bv.String() {
		t.Fail("constructor-inexact", map[string]interface{}{"op": "NewWithBigInt", "v": bv.String(), "why": "argument changed by the constructor", "arg": arg.String()})
	}
	arg.Mul(arg, apd.NewBigInt(r.Range(2, 99)))
	arg.Add(arg, apd.NewBigInt(1))
	if g2 := br.FromApd(nb); g2.C.CmpAbs(bv) != 0 || g2.E != int64(e) {
		t.Fail("constructor-inexact", map[string]interface{}{"op": "NewWithBigInt", "v": bv.String(), "why": "the Decimal changed when its constructor argument was modified afterwards", "got": g2.FullString()})
	}
	t.Count("constructors")
}

func float64Case(t *mon.T) {
	r := t.Rng
	// decimals near float64 rounding boundaries: midpoints of adjacent floats
	// +/- one unit in a far digit
	var d dec.D
	switch r.Pick(40, 25, 15, 20, 12) {
	case 4:
		// the exact midpoint of two adjacent floats (a finite decimal of up to
		// ~1075 digits), then a perturbation of one unit tens to thousands of
		// digits further down: the tail decides the rounding and must not be lost
		f := floatBits(r)
		if math.IsNaN(f) || math.IsInf(f, 0) {
			f = 1
		}
		f = math.Abs(f)
		hi := math.Nextafter(f, math.Inf(1))
		if math.IsInf(hi, 0) {
			hi = f
			f = math.Nextafter(f, 0)
		}
		mid := new(big.Rat).Add(new(big.Rat).SetFloat64(f), new(big.Rat).SetFloat64(hi))
		mid.Quo(mid, big.NewRat(2, 1))
		// mid = num/den with den = 2^e: exact decimal coefficient num*5^e, exponent -e
		e := int64(mid.Denom().BitLen() - 1)
		cf := new(big.Int).Mul(mid.Num(), new(big.Int).Exp(big.NewInt(5), big.NewInt(e), nil))
		k := []int64{1, 5, 40, 300, 700, 1100, 2500}[r.Intn(7)]
		cf.Mul(cf, dec.Pow10(k))
		switch r.Intn(3) {
		case 0:
			cf.Add(cf, bOne)
		case 1:
			cf.Sub(cf, bOne)
		}
		d = dec.D{Form: dec.Finite, Neg: r.Bool(), C: cf, E: -e - k}
		if d.E < gen.MinExp+10 {
			d = dec.D{Form: dec.Finite, C: big.NewInt(15), E: -1}
		}
	case 0:
		f := floatBits(r)
		if math.IsNaN(f) || math.IsInf(f, 0) || f == 0 {
			f = 1.5
		}
		lo, hi := f, math.Nextafter(f, math.Inf(1))
		if math.IsInf(hi, 0) {
			hi = f
		}
		mid := new(big.Rat).Add(new(big.Rat).SetFloat64(lo), new(big.Rat).SetFloat64(hi))
		mid.Quo(mid, big.NewRat(2, 1))
		// decimal expansion of the midpoint with 30 extra digits, then perturbed
		scale := int64(360)
		if math.Abs(f) > 1 {
			scale = 40
		}
		num := new(big.Int).Mul(mid.Num(), dec.Pow10(scale))
		num.Quo(num, mid.Denom())
		neg := num.Sign() < 0
		num.Abs(num)
		num.Add(num, big.NewInt(r.Range(-1, 1)))
		if num.Sign() < 0 {
			num.SetInt64(0)
		}
		d = dec.D{Form: dec.Finite, Neg: neg, C: num, E: -scale}
	case 1:
		cf, _ := new(big.Int).SetString(gen.Digits(r, int64(1+r.Intn(40))), 10)
		d = dec.D{Form: dec.Finite, Neg: r.Bool(), C: cf, E: r.Range(-345, 310)}
	case 2: // subnormal range and overflow edge
		cf, _ := new(big.Int).SetString(gen.Digits(r, int64(1+r.Intn(25))), 10)
		if r.Bool() {
			d = gen.WithAdj(r.Bool(), cf, r.Range(-326, -305))
		} else if r.Chance(1, 3) {
			d = gen.WithAdj(r.Bool(), cf, r.Range(-420, -320)) // below the smallest subnormal: must become +/-0
		} else {
			d = gen.WithAdj(r.Bool(), cf, r.Range(306, 310))
		}
	default:
		d = dec.D{Form: dec.Finite, Neg: r.Bool(), C: big.NewInt(r.Range(0, 1<<53+5)), E: r.Range(-30, 30)}
	}
	a := br.ToApd(d)
	got, err := a.Float64()
	t.Eval()
	t.Count("float64")
	want := nearestFloat(d)
	if math.IsInf(want, 0) {
		t.Count("float64/overflow")
		// overflow: +/-Inf with or without error accepted
		if !math.IsInf(got, 0) || (got < 0) != (want < 0) {
			t.Fail("float64-wrong", map[string]interface{}{"d": d.FullString(), "got": fmt.Sprint(got), "want": fmt.Sprint(want), "err": fmt.Sprint(err)})
		}
		return
	}
	t.Nontrivial("F|" + d.FullString())
	if math.Float64bits(got) != math.Float64bits(want) || err != nil {
		t.Fail("float64-wrong", map[string]interface{}{"d": d.FullString(), "got": fmt.Sprintf("%v (%016x)", got, math.Float64bits(got)), "want": fmt.Sprintf("%v (%016x)", want, math.Float64bits(want)), "err": fmt.Sprint(err)})
	}
	if t.WantSample() {
		t.Sample(map[string]interface{}{"op": "Float64", "d": d.String(), "float": fmt.Sprint(got)})
	}
}

func modfCase(t *mon.T) {
	r := t.Rng
	c := gen.Context(r)
	d := modfOperand(r, c)
	if r.Chance(1, 4) {
		d = gen.Finite(r, c)
	}
	if nearSystemLimit(d.E, d.Adj()) {
		t.Skip("near-system-limit")
		return
	}
	a := br.ToApd(d)
	var integ, frac apd.Decimal
	pre1, _ := destPreState(r)
	pre2, _ := destPreState(r)
	br.SetApd(&integ, pre1)
	br.SetApd(&frac, pre2)
	mode := r.Intn(3)
	switch mode {
	case 0:
		a.Modf(&integ, &frac)
	case 1:
		a.Modf(&integ, nil)
	case 2:
		a.Modf(nil, &frac)
	}
	t.Eval()
	t.Count(fmt.Sprintf("modf/mode%d", mode))
	t.Nontrivial("m|" + d.FullString())
	// oracle
	var wi, wf dec.D
	if d.E >= 0 {
		wi = dec.D{Form: dec.Finite, Neg: d.Neg, C: new(big.Int).Mul(d.C, dec.Pow10(d.E)), E: 0}
		wf = dec.Zero(d.Neg, 0)
	} else {
		q, rem := new(big.Int).QuoRem(d.C, dec.Pow10(-d.E), new(big.Int))
		wi = dec.D{Form: dec.Finite, Neg: d.Neg, C: q, E: 0}
		wf = dec.D{Form: dec.Finite, Neg: d.Neg, C: rem, E: d.E}
	}
	fail := func(why string) {
		t.Fail("modf-wrong", map[string]interface{}{"d": d.FullString(), "integ": br.FromApd(&integ).FullString(), "frac": br.FromApd(&frac).FullString(), "mode": mode, "why": why})
	}
	if mode != 2 {
		gi := br.FromApd(&integ)
		if gi.Form != dec.Finite || !dec.SameValue(gi, wi) || gi.E < 0 {
			fail("integ is not the integral part with the sign of d and a non-negative exponent")
			return
		}
	}
	if mode != 1 {
		gf := br.FromApd(&frac)
		if gf.Form != dec.Finite || !dec.SameValue(gf, wf) {
			fail("frac is not d - integ with the sign of d")
			return
		}
		if dec.CmpAbs(gf, dec.FromInt(1, 0)) >= 0 {
			fail("|frac| >= 1")
			return
		}
	}
	if mode == 0 {
		sum := dec.AddExact(br.FromApd(&integ), br.FromApd(&frac), false)
		sd := dec.D{Form: dec.Finite, Neg: sum.Neg, C: sum.Num, E: sum.E}
		if dec.CmpAbs(sd, d) != 0 || (sd.C.Sign() != 0 && sd.Neg != d.Neg) {
			fail("integ + frac != d")
		}
	}
}

func runC17(r *mon.Run) {
	r.Rule = "cases: Int64 on coefficients within +/-3 of {0, MaxInt64, -MinInt64, 10^18, 10^19, 2^64} times powers of ten (exponents -25..25), with " +
		"trailing-zero and fractional variants; SetInt64/New/SetFinite/NewWithBigInt on arbitrary values into dirty destinations; Float64 on " +
		"decimals at the midpoints of adjacent floats +/- one unit in a far digit, in the subnormal range and at the overflow edge, oracle " +
		"big.Rat.Float64 (exactly rounded nearest); Modf over its exponent/digit-count branches with dirty outputs and nil outputs, oracle " +
		"big.Int QuoRem. distinct_nontrivial = distinct operands decided."
	r.Assumptions = []string{"math/big is correct; big.Rat.Float64 returns the nearest float64 (ties to even)", "for Float64 overflow, +/-Inf with or without an error is accepted"}
	r.Parallel("int64", r.N(150000, 12000000), int64Case)
	r.Parallel("float64", r.N(120000, 10000000), float64Case)
	r.Parallel("modf", r.N(120000, 10000000), modfCase)
	for _, cl := range []string{"int64/in-range", "int64/error-expected", "constructors", "float64", "float64/overflow", "modf/mode0", "modf/mode1", "modf/mode2"} {
		r.Require(cl, 500)
	}
}
