package props

import (
	"fmt"
	"math/big"

	"github.com/cockroachdb/apd/v3"

	"verif/internal/br"
	"verif/internal/dec"
	"verif/internal/gen"
	"verif/internal/mon"
	"verif/internal/rng"
)

func init() {
	register("C09", runC09)
	register("C10", runC10)
}

// CallQuantize runs Context.Quantize on fresh operands.
func CallQuantize(ctx *apd.Context, x dec.D, e int64) Outcome {
	d := usedDestination(x)
	res, err := ctx.Quantize(d, br.ToApd(x), int32(e))
	return Outcome{Res: br.FromApd(d), Flags: res, Err: err, Raw: d}
}

// quantizeOperand draws x and a target exponent e covering every relative
// position of e against x's digits.
func quantizeOperand(r *rng.R, c dec.Ctx) (dec.D, int64) {
	nd := gen.CoeffLen(r, c.P)
	var cf *big.Int
	if r.Chance(1, 3) {
		keep := int64(1 + r.Intn(int(nd)))
		cf, _ = new(big.Int).SetString(gen.TieDigits(r, keep, nd-keep+1), 10)
	} else {
		cf, _ = new(big.Int).SetString(gen.Digits(r, nd), 10)
	}
	nd = dec.NumDigits(cf)
	// target exponent e within or around the context's range
	var e int64
	switch r.Pick(60, 15, 15, 10) {
	case 0:
		e = r.Range(-c.P-4, c.P+4)
	case 1:
		e = r.Range(c.Etiny()-2, c.Etiny()+3)
	case 2:
		e = r.Range(c.Emax-3, c.Emax+2)
	default:
		e = r.Range(c.Etiny(), c.Emax)
	}
	// place x relative to e
	var xe int64
	switch r.Pick(15, 30, 12, 12, 25, 6) {
	case 0: // padding: e <= x.E
		xe = e + int64(r.Intn(int(c.P)+3))
	case 1: // cut 1..nd-1 digits
		xe = e - int64(1+r.Intn(int(nd)))
	case 2: // cut exactly nd digits
		xe = e - nd
	case 3: // one place below
		xe = e - nd - 1
	case 4: // 1..40 places below one unit
		xe = e - nd - int64(1+r.Intn(40))
	default:
		xe = e + r.Range(-200, 200)
	}
	x := dec.D{Form: dec.Finite, Neg: r.Bool(), C: cf, E: xe}
	if r.Chance(1, 50) {
		x.C = new(big.Int)
	}
	if x.E < gen.MinExp+1000 || x.Adj() > gen.MaxExp-1000 || x.E > gen.MaxExp-1000 {
		x.E = 0
	}
	return x, e
}

func quantizeCase(t *mon.T, which string, c dec.Ctx, x dec.D, e int64) {
	m := ModelQuantize(c, x, e)
	o := CallQuantize(br.Context(c, 0), x, e)
	y := dec.D{Form: dec.Finite, C: big.NewInt(e), E: 0} // the target exponent, recorded as y for reports
	if e < 0 {
		y = dec.D{Form: dec.Finite, Neg: true, C: big.NewInt(-e), E: 0}
	}
	if judge(t, which, "quantize", c, x, y, m, o) {
		trapEcho(t, "quantize", c, x, e, o)
	}
}

// trapEcho repeats a call that was judged correct under a random non-empty
// trap set: what is reported (result, flags) must be the same, and these
// single-rounding operations return an error exactly when a reported
// condition is trapped - in particular RoundToIntegralValue, which reports no
// Inexact/Rounded, must not fail because of them.
func trapEcho(t *mon.T, op string, c dec.Ctx, x dec.D, e int64, o Outcome) {
	if !t.Rng.Chance(1, 3) {
		return
	}
	traps := apd.Condition(t.Rng.U64()) & br.AllFlags
	if t.Rng.Bool() {
		traps = []apd.Condition{apd.Inexact, apd.Rounded, apd.Inexact | apd.Rounded, apd.InvalidOperation, apd.Subnormal | apd.Underflow, apd.Clamped}[t.Rng.Intn(6)]
	}
	if traps == 0 {
		return
	}
	var o2 Outcome
	if op == "quantize" {
		o2 = CallQuantize(br.Context(c, traps), x, e)
	} else {
		o2 = CallArith(op, br.Context(c, traps), x, dec.D{})
	}
	t.Eval()
	t.Count("trap-echo/" + op)
	why := ""
	switch {
	case o2.Flags != o.Flags:
		why = fmt.Sprintf("Condition differs under traps: %s vs %s", br.FlagNames(o2.Flags), br.FlagNames(o.Flags))
	case meaningful(o2.Res) != meaningful(o.Res):
		why = fmt.Sprintf("result differs under traps: %s vs %s", meaningful(o2.Res), meaningful(o.Res))
	case (o2.Err != nil) != (o.Flags&traps != 0):
		why = fmt.Sprintf("error %v although reported flags [%s] & traps [%s] say otherwise", o2.Err, br.FlagNames(o.Flags), br.FlagNames(traps))
	}
	if why != "" {
		d := detail(op, c, x, dec.D{}, o2, why)
		d["traps"] = br.FlagNames(traps)
		d["aux"] = e
		t.Fail("report-differs-under-traps", d)
	}
}

func rtiCase(t *mon.T, which string, op string, c dec.Ctx, x dec.D) {
	var m Expect
	switch op {
	case "rtie":
		m = ModelRTI(c, x, true)
	case "rtiv":
		m = ModelRTI(c, x, false)
	case "ceil":
		m = ModelCeilFloor(c, x, true)
	case "floor":
		m = ModelCeilFloor(c, x, false)
	}
	o := CallArith(op, br.Context(c, 0), x, dec.D{})
	if judge(t, which, op, c, x, dec.D{}, m, o) {
		trapEcho(t, op, c, x, 0, o)
	}
}

// integralOperand draws x around the integer boundary (exponent 0).
func integralOperand(r *rng.R, c dec.Ctx) dec.D {
	x, _ := quantizeOperand(r, c)
	nd := x.Digits()
	switch r.Pick(30, 20, 15, 20, 10, 5) {
	case 0:
		x.E = -int64(1 + r.Intn(int(nd)))
	case 1:
		x.E = -nd
	case 2:
		x.E = -nd - 1
	case 3:
		x.E = -nd - int64(1+r.Intn(40))
	case 4:
		x.E = int64(r.Intn(6))
	default:
		x.E = r.Range(-60, 20)
	}
	return x
}

func pinnedC09(t *mon.T) {
	for _, m := range []string{"up", "ceiling", "floor", "05up", "down", "half_even"} {
		for _, neg := range []bool{false, true} {
			c := dec.Ctx{P: 3, Emin: -9, Emax: 9, Mode: m}
			quantizeCase(t, "all", c, dec.D{Form: dec.Finite, Neg: neg, C: big.NewInt(1), E: -3}, 0)
			rtiCase(t, "value,flags", "rtie", c, dec.D{Form: dec.Finite, Neg: neg, C: big.NewInt(1), E: -3})
			rtiCase(t, "value,flags", "rtiv", c, dec.D{Form: dec.Finite, Neg: neg, C: big.NewInt(1), E: -3})
			t.Count("pinned")
		}
	}
	c := dec.Ctx{P: 4, Emin: 0, Emax: 9, Mode: "half_even"}
	quantizeCase(t, "all", c, dec.D{Form: dec.Finite, C: big.NewInt(1732), E: -1}, 3)
	quantizeCase(t, "all", c, dec.D{Form: dec.Finite, C: big.NewInt(9732), E: -1}, 3)
	t.Count("pinned")
}

func runC09(r *mon.Run) {
	r.Rule = "cases: Quantize(x, e) with e at every relative position to x's digits (padding, cutting 1..nd-1 digits, cutting exactly nd " +
		"digits, 1..40 places below one unit), ties/near-ties at the cut, carries against the digit limit, e around Etiny and Emax, " +
		"MinExponent down from 0, all 8 modes; kept digits equal to 2^k-2..2^k+1 (word sizes) or 10^k-1, 10^k with ties, near-ties and nines behind the cut; RoundToIntegralExact/Value, Ceil and Floor around the integer boundary. Oracle: exact " +
		"integer division with remainder + independent rounding table. distinct_nontrivial = distinct (op,context,x,e) where at " +
		"least one non-zero digit was discarded or NaN/InvalidOperation is demanded."
	r.Assumptions = []string{"math/big is correct", "for RoundToIntegral*, Ceil, Floor only x whose integer result fits MaxExponent (and, for Ceil/Floor, Precision) is in the domain"}
	r.Serial("pinned", pinnedC09)
	r.Parallel("quantize", r.N(250000, 25000000), func(t *mon.T) {
		c := gen.Context(t.Rng)
		x, e := quantizeOperand(t.Rng, c)
		quantizeCase(t, "all", c, x, e)
	})
	// Precisions at which 10^P lies within 3e-3 of a power of two (497, 643, 849,
	// ...: gen.CoincidenceExps) and their neighbours, with coefficients of P and
	// P+1 digits just above and below 10^P: where a digit-limit test that is
	// decided from the bit length goes wrong first.
	coinP := gen.CoincidenceExps(100, 5000, 3e-3)
	r.Parallel("coincidence-precision", int64(len(coinP))*r.N(6, 60), func(t *mon.T) {
		rr := t.Rng
		P := coinP[t.Index%int64(len(coinP))] + []int64{0, 0, 0, -1, 1}[rr.Intn(5)]
		c := dec.Ctx{P: P, Emin: -6143, Emax: 6144, Mode: gen.Mode(rr)}
		var cf *big.Int
		switch rr.Intn(5) {
		case 0:
			cf = new(big.Int).Set(dec.Pow10(P)) // P+1 digits
		case 1:
			cf = new(big.Int).Add(dec.Pow10(P), big.NewInt(rr.Range(1, 99999)))
		case 2:
			cf = new(big.Int).Sub(dec.Pow10(P), big.NewInt(rr.Range(1, 99999))) // P digits
		case 3:
			cf = new(big.Int).Add(dec.Pow10(P-1), big.NewInt(rr.Range(0, 99999)))
		default:
			cf = new(big.Int).Sub(dec.Pow10(P+1), big.NewInt(rr.Range(1, 9))) // P+1 nines
		}
		xe := -rr.Range(0, 3)
		e := xe + []int64{0, 0, 1, 1, 2, -1}[rr.Intn(6)]
		quantizeCase(t, "all", c, dec.D{Form: dec.Finite, Neg: rr.Bool(), C: cf, E: xe}, e)
		t.Count("coincidence-precision")
	})
	r.Require("coincidence-precision", 200)
	// contexts whose MaxExponent is smaller than their Precision (a legal
	// combination: many digits, small magnitudes): a result may have more
	// digits than MaxExponent+1 as long as its adjusted exponent stays within range
	r.Parallel("narrow-emax", r.N(20000, 1500000), func(t *mon.T) {
		rr := t.Rng
		c := gen.Context(rr)
		if c.P < 4 {
			c.P = int64(4 + rr.Intn(30))
		}
		c.Emax = int64(rr.Intn(int(c.P) - 1))
		if c.Emin > 0 {
			c.Emin = 0
		}
		x, e := quantizeOperand(rr, c)
		if rr.Bool() {
			quantizeCase(t, "all", c, x, e)
		} else {
			rtiCase(t, "value,flags", []string{"rtie", "rtiv"}[rr.Intn(2)], c, integralOperand(rr, c))
		}
		t.Count("narrow-emax")
	})
	r.Require("narrow-emax", 10000)
	// the digits that are KEPT are a machine-word or power-of-ten boundary
	// value (2^64-1 followed by a tail that rounds up, ...), so that the
	// increment after the cut carries out of a word or into a new digit
	r.Parallel("kept-boundary", r.N(30000, 2000000), func(t *mon.T) {
		rr := t.Rng
		c, x, j := gen.KeptBoundary(rr)
		if rr.Chance(1, 3) {
			c.P += int64(rr.Intn(4)) // room for the carry
		}
		switch rr.Intn(4) {
		case 0, 1:
			quantizeCase(t, "all", c, x, x.E+j)
		default:
			x.E = -j
			if c.Emax < c.P {
				c.Emax = c.P + int64(rr.Intn(10))
			}
			rtiCase(t, "value,flags", []string{"rtie", "rtiv", "ceil", "floor"}[rr.Intn(4)], c, x)
		}
		t.Count("kept-boundary")
	})
	r.Require("kept-boundary", 10000)
	r.Parallel("integral", r.N(150000, 15000000), func(t *mon.T) {
		c := gen.Context(t.Rng)
		x := integralOperand(t.Rng, c)
		op := []string{"rtie", "rtiv", "ceil", "floor"}[t.Rng.Intn(4)]
		rtiCase(t, "value,flags", op, c, x)
	})
	for _, cl := range []string{"class/far-below-unit", "class/all-digits-cut", "class/cut-tie", "class/cut-inexact", "class/pad", "class/cut-zeros",
		"class/coefficient-exceeds-precision", "class/target-exponent-outside-range", "class/fractional", "op/quantize", "op/rtie", "op/rtiv", "op/ceil", "op/floor"} {
		r.Require(cl, 100)
	}
	r.Require("pinned", 13)
}

// ---------------------------------------------------------------- C10

func remPair(r *rng.R, c dec.Ctx) (dec.D, dec.D) {
	x, y := gen.Pair(r, c, "rem")
	switch r.Pick(40, 20, 15, 15, 10) {
	case 0:
	case 1: // quotient of exactly p or p+1 digits: x ~ y * 10^(p-1..p)
		k := c.P - 1 + int64(r.Intn(2))
		x = gen.WithAdj(x.Neg, x.C, y.Adj()+k)
	case 2: // x multiple of y
		m := gen.Coeff(r, c.P)
		x = dec.D{Form: dec.Finite, Neg: x.Neg, C: new(big.Int).Mul(y.C, m), E: y.E + int64(r.Intn(3))}
	case 3: // |x| < |y|
		x = gen.WithAdj(x.Neg, x.C, y.Adj()-int64(1+r.Intn(5)))
	default: // exponent gap up to 60
		x = gen.WithAdj(x.Neg, x.C, y.Adj()+r.Range(-60, 60))
	}
	if x.E < gen.MinExp+2000 || x.E > gen.MaxExp-2000 {
		x.E = y.E
	}
	return x, y
}

func remCase(t *mon.T, which string, c dec.Ctx, x, y dec.D) {
	ctx := br.Context(c, 0)
	mq := ModelQuoInteger(c, x, y)
	oq := CallArith("quoint", ctx, x, y)
	okq := judge(t, which, "quoint", c, x, y, mq, oq)
	mr := ModelRem(c, x, y)
	or := CallArith("rem", ctx, x, y)
	okr := judge(t, which, "rem", c, x, y, mr, or)
	if !okq || !okr || mq.ResNaN || mr.ResNaN {
		return
	}
	// The identity ties the two calls together: when r was delivered exactly
	// (no Inexact), x == q*y + r exactly, |r| < |y|, r has the sign of x.
	if or.Flags&apd.Inexact == 0 && oq.Res.Form == dec.Finite && or.Res.Form == dec.Finite {
		qy := dec.MulExact(oq.Res, y)
		sum := dec.AddExact(dec.D{Form: dec.Finite, Neg: qy.Neg, C: qy.Num, E: qy.E}, or.Res, false)
		xe := dec.D{Form: dec.Finite, Neg: sum.Neg, C: sum.Num, E: sum.E}
		if dec.CmpAbs(xe, x) != 0 || (!x.IsZero() && xe.Neg != x.Neg && xe.C.Sign() != 0) {
			t.Fail("identity-broken", detail("quoint+rem", c, x, y, or, fmt.Sprintf("q*y+r = %s != x (q=%s)", xe, oq.Res)))
		}
		if dec.CmpAbs(or.Res, y) >= 0 {
			t.Fail("identity-broken", detail("rem", c, x, y, or, "|r| >= |y|"))
		}
		t.Count("identity-checked")
	}
}

func runC10(r *mon.Run) {
	r.Rule = "cases: finite (x, y) with digit counts 1..3p on both sides, exponent gaps 0..60 (rarely 300), quotients of exactly p and p+1 " +
		"digits, x multiple of y, |x|<|y|; QuoInteger and Rem are run on the same operands and checked against big.Int QuoRem of the aligned " +
		"coefficients, and together through x = q*y + r. distinct_nontrivial = distinct (context,x,y) with q != 0 or DivisionImpossible demanded."
	r.Assumptions = []string{"math/big is correct", "operand exponents within 99000 of zero"}
	r.Parallel("quorem", r.N(200000, 20000000), func(t *mon.T) {
		c := gen.Context(t.Rng)
		x, y := remPair(t.Rng, c)
		remCase(t, "all", c, x, y)
	})
	// QuoInteger and Rem do not get slower with the precision, so a caller who
	// wants exact integer division sets it as high as it goes: precisions from
	// 2^31 up (where an int32 conversion of Precision wraps), long quotients and
	// exponent gaps beyond the power-of-ten table.
	r.Parallel("huge-precision", r.N(4000, 200000), func(t *mon.T) {
		rr := t.Rng
		gc := gen.Context(rr)
		if gc.P > 40 {
			gc.P = 40
		}
		x, y := remPair(rr, gc)
		if rr.Chance(1, 3) && !x.IsZero() {
			x.E += rr.Range(129, 400)
		}
		c := dec.Ctx{P: []int64{1 << 31, 1<<31 + 5, 3000000000, 4294967295, 1<<31 - 1}[rr.Intn(5)], Emin: -100000, Emax: 100000, Mode: gen.Mode(rr)}
		remCase(t, "all", c, x, y)
		t.Count("huge-precision")
	})
	r.Require("huge-precision", 3000)
	for _, cl := range []string{"class/division-impossible", "class/quotient", "class/quotient-zero", "class/quotient-full-precision", "class/remainder-zero",
		"class/remainder-exact", "identity-checked"} {
		r.Require(cl, 100)
	}
}
