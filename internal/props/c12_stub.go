package props

import "verif/internal/mon"

func transcendentalFit(r *mon.Run) {}
