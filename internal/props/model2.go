package props

import (
	"math/big"

	"github.com/cockroachdb/apd/v3"

	"verif/internal/dec"
)

var (
	bOne  = big.NewInt(1)
	bTwo  = big.NewInt(2)
	bFour = big.NewInt(4)
	bTen  = big.NewInt(10)
)

// alignInts returns the coefficients of x and y scaled to the common
// exponent e = min(x.E, y.E).
func alignInts(x, y dec.D) (a, b *big.Int, e int64) {
	e = x.E
	if y.E < e {
		e = y.E
	}
	a = new(big.Int).Mul(x.C, dec.Pow10(x.E-e))
	b = new(big.Int).Mul(y.C, dec.Pow10(y.E-e))
	return
}

// ModelQuoInteger: q = trunc(x/y), exponent 0, sign = xor; DivisionImpossible
// (NaN) exactly when q needs more than Precision digits.
func ModelQuoInteger(c dec.Ctx, x, y dec.D) Expect {
	if y.IsZero() {
		return Expect{Skip: "division-by-zero (C08)"}
	}
	if c.P == 0 {
		return Expect{Skip: "needs-precision"}
	}
	if nearSystemLimit(x.E-y.E, x.E, y.E) {
		return Expect{Skip: "near-system-limit", SystemLimitOK: true}
	}
	a, b, _ := alignInts(x, y)
	q := new(big.Int).Quo(a, b)
	if dec.NumDigits(q) > c.P {
		return Expect{ResNaN: true, Must: apd.DivisionImpossible, MustNot: coreFlags | apd.Rounded | apd.InvalidOperation | apd.DivisionByZero | apd.DivisionUndefined,
			Class: "division-impossible", Nontrivial: true}
	}
	e := Expect{Res: dec.D{Form: dec.Finite, Neg: x.Neg != y.Neg, C: q, E: 0}, HasExp: true, ExpExponent: 0,
		MustNot: coreFlags | apd.Rounded | divFlags, Class: "quotient"}
	if q.Sign() == 0 {
		e.Class = "quotient-zero"
	}
	if dec.NumDigits(q) == c.P {
		e.Class = "quotient-full-precision"
	}
	e.Nontrivial = q.Sign() != 0
	return e
}

// ModelRem: r = x - q*y (sign of x), rounded once to the context;
// DivisionImpossible exactly when q needs more than Precision digits.
func ModelRem(c dec.Ctx, x, y dec.D) Expect {
	if y.IsZero() {
		return Expect{Skip: "division-by-zero (C08)"}
	}
	if c.P == 0 {
		return Expect{Skip: "needs-precision"}
	}
	if nearSystemLimit(x.E-y.E, x.E, y.E) {
		return Expect{Skip: "near-system-limit", SystemLimitOK: true}
	}
	a, b, e := alignInts(x, y)
	q, r := new(big.Int).QuoRem(a, b, new(big.Int))
	if dec.NumDigits(q) > c.P {
		return Expect{ResNaN: true, Must: apd.DivisionImpossible, MustNot: coreFlags | apd.InvalidOperation | apd.DivisionByZero | apd.DivisionUndefined,
			Class: "division-impossible", Nontrivial: true}
	}
	if r.Sign() == 0 {
		return Expect{Res: dec.Zero(x.Neg, 0), MustNot: coreFlags | divFlags, Class: "remainder-zero"}
	}
	ex := dec.Exact{Neg: x.Neg, Num: r, Den: bOne, E: e}
	if nearSystemLimit(dec.AdjExact(ex)) {
		return Expect{Skip: "near-system-limit", SystemLimitOK: true}
	}
	ee := fromRounded(dec.RoundOnce(ex, c))
	ee.Class = "remainder-" + ee.Class
	ee.Nontrivial = q.Sign() != 0
	return ee
}

// ModelQuantize is C09's model of Quantize(x, e) for finite x.
func ModelQuantize(c dec.Ctx, x dec.D, e int64) Expect {
	if c.P == 0 {
		return Expect{Skip: "needs-precision"}
	}
	if nearSystemLimit(e-x.E, x.E, e) {
		return Expect{Skip: "near-system-limit", SystemLimitOK: true}
	}
	if e < c.Etiny() || e > c.Emax {
		return Expect{ResNaN: true, Must: apd.InvalidOperation, MustNot: apd.Underflow | apd.Overflow, Class: "target-exponent-outside-range", Nontrivial: true}
	}
	if x.IsZero() {
		return Expect{Res: dec.Zero(x.Neg, e), HasExp: true, ExpExponent: e, MustNot: apd.Inexact | apd.Underflow | apd.Overflow | divFlags, Class: "zero"}
	}
	ex := dec.ExactOf(x)
	i, remNZ, half := divideAt(ex, e)
	lost := remNZ
	if dec.Increment(c.Mode, i, x.Neg, remNZ, half) {
		i = new(big.Int).Add(i, bOne)
	}
	if dec.NumDigits(i) > c.P {
		return Expect{ResNaN: true, Must: apd.InvalidOperation, MustNot: apd.Underflow | apd.Overflow, Class: "coefficient-exceeds-precision", Nontrivial: true}
	}
	out := Expect{Res: dec.D{Form: dec.Finite, Neg: x.Neg, C: i, E: e}, HasExp: true, ExpExponent: e,
		MustNot: apd.Underflow | apd.Overflow | divFlags}
	if i.Sign() != 0 && e+dec.NumDigits(i)-1 > c.Emax {
		// digits fit and e <= Emax but the adjusted exponent does not: the
		// property leaves this sliver to C07.
		return Expect{Skip: "quantize-adjusted-above-emax"}
	}
	if lost {
		out.Must |= apd.Inexact | apd.Rounded
		out.Nontrivial = true
		switch {
		case x.Adj() < e-1:
			out.Class = "far-below-unit"
		case x.Adj() == e-1:
			out.Class = "all-digits-cut"
		case half == 0:
			out.Class = "cut-tie"
		default:
			out.Class = "cut-inexact"
		}
	} else {
		out.MustNot |= apd.Inexact
		if e > x.E {
			out.Class = "cut-zeros"
		} else {
			out.Class = "pad"
		}
	}
	return out
}

// divideAt computes floor(|x|/10^q), whether a remainder exists, and how it
// compares with one half.
func divideAt(x dec.Exact, q int64) (*big.Int, bool, int) {
	adj := dec.AdjExact(x)
	if adj < q-1 {
		return new(big.Int), true, -1
	}
	var n, d *big.Int
	if x.E >= q {
		n = new(big.Int).Mul(x.Num, dec.Pow10(x.E-q))
		d = x.Den
	} else {
		n = x.Num
		d = new(big.Int).Mul(x.Den, dec.Pow10(q-x.E))
	}
	i, rem := new(big.Int).QuoRem(n, d, new(big.Int))
	if rem.Sign() == 0 {
		return i, false, -1
	}
	rem.Lsh(rem, 1)
	return i, true, rem.Cmp(d)
}

// ModelRTI models RoundToIntegralExact (exact=true) and RoundToIntegralValue.
func ModelRTI(c dec.Ctx, x dec.D, exact bool) Expect {
	if nearSystemLimit(x.E, x.Adj()) {
		return Expect{Skip: "near-system-limit", SystemLimitOK: true}
	}
	if x.IsZero() {
		e := Expect{Res: dec.Zero(x.Neg, 0), MustNot: apd.Inexact | apd.Underflow | apd.Overflow | divFlags, Class: "zero"}
		if !exact {
			e.MustNot |= apd.Rounded
		}
		return e
	}
	if x.E >= 0 {
		e := Expect{Res: x, MustNot: apd.Inexact | apd.Underflow | apd.Overflow | divFlags, Class: "already-integral"}
		if !exact {
			e.MustNot |= apd.Rounded
		}
		if x.Adj() > c.Emax {
			return Expect{Skip: "rti-integer-above-emax"}
		}
		return e
	}
	ex := dec.ExactOf(x)
	i, remNZ, half := divideAt(ex, 0)
	if dec.Increment(c.Mode, i, x.Neg, remNZ, half) {
		i = new(big.Int).Add(i, bOne)
	}
	if i.Sign() != 0 && dec.NumDigits(i)-1 > c.Emax {
		return Expect{Skip: "rti-integer-above-emax"}
	}
	out := Expect{Res: dec.D{Form: dec.Finite, Neg: x.Neg, C: i, E: 0}, HasExp: true, ExpExponent: 0,
		MustNot: apd.Underflow | apd.Overflow | divFlags}
	if remNZ {
		out.Nontrivial = true
		if exact {
			out.Must |= apd.Inexact | apd.Rounded
		}
		switch {
		case x.Adj() < -1:
			out.Class = "far-below-unit"
		case half == 0:
			out.Class = "cut-tie"
		default:
			out.Class = "cut-inexact"
		}
	} else {
		out.MustNot |= apd.Inexact
		out.Class = "cut-zeros"
	}
	if !exact {
		out.MustNot |= apd.Inexact | apd.Rounded
	}
	return out
}

// ModelCeilFloor: the smallest integer >= x (ceil) or largest <= x (floor),
// for x whose integer part fits the precision.
func ModelCeilFloor(c dec.Ctx, x dec.D, ceil bool) Expect {
	if nearSystemLimit(x.E, x.Adj()) {
		return Expect{Skip: "near-system-limit", SystemLimitOK: true}
	}
	if c.P == 0 {
		return Expect{Skip: "needs-precision"}
	}
	ex := dec.ExactOf(x)
	var i *big.Int
	remNZ := false
	if x.IsZero() {
		i = new(big.Int)
	} else if x.E >= 0 {
		i = new(big.Int).Mul(x.C, dec.Pow10(x.E))
	} else {
		i, remNZ, _ = divideAt(ex, 0)
	}
	// i = trunc(|x|). ceil: x>0 with fraction -> i+1; floor: x<0 with fraction -> i+1 in magnitude.
	if remNZ && (ceil != x.Neg) {
		i = new(big.Int).Add(i, bOne)
	}
	if dec.NumDigits(i) > c.P || dec.NumDigits(i)-1 > c.Emax {
		return Expect{Skip: "integer-part-exceeds-precision"}
	}
	out := Expect{Res: dec.D{Form: dec.Finite, Neg: x.Neg, C: i, E: 0}, AltZeroNeg: true, MustNot: apd.Underflow | apd.Overflow | divFlags}
	out.Class = "integral"
	if remNZ {
		out.Class = "fractional"
		out.Nontrivial = true
	}
	return out
}

// isqrtFloor returns floor(sqrt(n)).
func isqrtFloor(n *big.Int) *big.Int { return new(big.Int).Sqrt(n) }

// SqrtInfo carries the details of the Sqrt model needed by the known-finding
// class predicate.
type SqrtInfo struct {
	A, B  *big.Int // scaled radicand A/B: root = sqrt(A/B) * 10^q
	S     *big.Int // floor(sqrt(A/B))
	Q     int64    // quantum exponent
	Kept  int64    // digits kept (digits of the rounded coefficient before carry)
	Exact bool
}

// ModelSqrt models Sqrt for finite x > 0: exact root rounded half-even once
// at the context quantum.
func ModelSqrt(c dec.Ctx, x dec.D) (Expect, *SqrtInfo) {
	if c.P == 0 {
		return Expect{Skip: "needs-precision"}, nil
	}
	if x.IsZero() || x.Neg {
		return Expect{Skip: "zero-or-negative (C08)"}, nil
	}
	if nearSystemLimit(x.E, x.Adj()) {
		return Expect{Skip: "near-system-limit", SystemLimitOK: true}, nil
	}
	C, E := x.C, x.E
	if E%2 != 0 {
		C = new(big.Int).Mul(C, bTen)
		E--
	}
	// root = sqrt(C) * 10^(E/2). Adjusted exponent of the root:
	// digits(C) = 2k or 2k-1 -> sqrt(C) has k digits.
	k := (dec.NumDigits(C) + 1) / 2
	adjRoot := k - 1 + E/2
	q := adjRoot - c.P + 1
	if et := c.Etiny(); q < et {
		q = et
	}
	// scaled radicand: C*10^E / 10^(2q) = A/B
	var A, B *big.Int
	if sh := E - 2*q; sh >= 0 {
		A, B = new(big.Int).Mul(C, dec.Pow10(sh)), bOne
	} else {
		if -sh > 2*(dec.NumDigits(C)+2) {
			// root < 0.01 quantum: rounds to zero (half-even) -> inexact, subnormal
			A, B = C, dec.Pow10(-sh)
		} else {
			A, B = C, dec.Pow10(-sh)
		}
	}
	fl := new(big.Int).Quo(A, B)
	s := isqrtFloor(fl)
	exact := new(big.Int).Mul(new(big.Int).Mul(s, s), B).Cmp(A) == 0
	info := &SqrtInfo{A: A, B: B, S: s, Q: q, Exact: exact, Kept: dec.NumDigits(s)}
	i := new(big.Int).Set(s)
	half := -1
	if !exact {
		// compare A/B with (s+1/2)^2 = (2s+1)^2/4  <=> 4A vs B(2s+1)^2
		t := new(big.Int).Add(new(big.Int).Lsh(s, 1), bOne)
		t.Mul(t, t).Mul(t, B)
		half = new(big.Int).Lsh(A, 2).Cmp(t)
		if dec.Increment("half_even", i, false, true, half) {
			i.Add(i, bOne)
		}
	}
	res := dec.D{Form: dec.Finite, C: i, E: q}
	out := Expect{Res: res, MustNot: divFlags}
	subnormal := adjRoot < c.Emin
	set := func(b bool, f apd.Condition) {
		if b {
			out.Must |= f
		} else {
			out.MustNot |= f
		}
	}
	overflow := i.Sign() != 0 && res.Adj() > c.Emax
	if overflow {
		out.Res = dec.Special(dec.Inf, false)
	}
	set(!exact || overflow, apd.Inexact)
	set(subnormal, apd.Subnormal)
	set(subnormal && !exact, apd.Underflow)
	set(overflow, apd.Overflow)
	if !exact {
		out.Must |= apd.Rounded
	}
	out.Nontrivial = !exact
	switch {
	case overflow:
		out.Class = "overflow"
	case subnormal:
		out.Class = "subnormal"
	case exact:
		out.Class = "exact-root"
	case half == 0:
		out.Class = "tie"
	default:
		out.Class = "inexact-root"
	}
	return out, info
}

// sqrtWithin reports whether |sqrt(A/B) - v/2| < 10^-m (v is twice the
// reference point so that half-integers are expressible).
func sqrtWithin(A, B, v2 *big.Int, m int64) bool {
	// |sqrt(A/B) - v2/2| < 10^-m  <=>  (v2*10^m - 2)^2 * B < 4*10^(2m) * A < (v2*10^m + 2)^2 * B
	pm := dec.Pow10(m)
	mid := new(big.Int).Mul(new(big.Int).Mul(dec.Pow10(2*m), bFour), A)
	lo := new(big.Int).Sub(new(big.Int).Mul(v2, pm), bTwo)
	hi := new(big.Int).Add(new(big.Int).Mul(v2, pm), bTwo)
	loSq := new(big.Int).Mul(new(big.Int).Mul(lo, lo), B)
	hiSq := new(big.Int).Mul(new(big.Int).Mul(hi, hi), B)
	if lo.Sign() < 0 {
		loSq.SetInt64(-1)
	}
	return loSq.Cmp(mid) < 0 && mid.Cmp(hiSq) < 0
}

// ModelReduce: value = x rounded once; coefficient without trailing zeros;
// zero becomes 0E0 keeping its sign.
func ModelReduce(c dec.Ctx, x dec.D) Expect {
	if nearSystemLimit(x.E, x.Adj()) {
		return Expect{Skip: "near-system-limit", SystemLimitOK: true}
	}
	if x.IsZero() {
		return Expect{Res: dec.Zero(x.Neg, 0), HasExp: true, ExpExponent: 0, MustNot: coreFlags | divFlags, Class: "zero"}
	}
	e := fromRounded(dec.RoundOnce(dec.ExactOf(x), c))
	if e.Res.IsZero() {
		e.HasExp, e.ExpExponent = true, 0
	}
	return e
}
