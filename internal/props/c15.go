package props

import (
	"fmt"
	"math/big"
	"sort"

	"github.com/cockroachdb/apd/v3"

	"verif/internal/br"
	"verif/internal/dec"
	"verif/internal/gen"
	"verif/internal/mon"
	"verif/internal/rng"
)

func init() {
	register("C15", runC15)
}

// totalRank is the documented ranking of forms in the total order.
func totalRank(d dec.D) int {
	v := 0
	switch d.Form {
	case dec.Finite:
		v = 1
	case dec.Inf:
		v = 2
	case dec.SNaN:
		v = 3
	case dec.NaN:
		v = 4
	}
	if d.Neg {
		return -v
	}
	return v
}

// refCmpTotal is the reference total order for numbers; for two NaNs of the
// same kind and sign it returns 2 (payload order: only the axioms are held).
func refCmpTotal(a, b dec.D) int {
	ra, rb := totalRank(a), totalRank(b)
	if ra != rb {
		if ra < rb {
			return -1
		}
		return 1
	}
	switch a.Form {
	case dec.Inf:
		return 0
	case dec.NaN, dec.SNaN:
		return 2
	}
	// same sign finite
	if c := dec.Cmp(a, b); c != 0 {
		return c
	}
	// equal value: order by exponent, reversed for negatives
	c := 0
	if a.E < b.E {
		c = -1
	} else if a.E > b.E {
		c = 1
	}
	if a.Neg {
		c = -c
	}
	return c
}

// cmpPair draws pairs engineered for each of Cmp's paths.
func cmpPair(r *rng.R) (dec.D, dec.D, string) {
	c := gen.Context(r)
	mk := func() dec.D { return gen.Finite(r, c) }
	switch r.Pick(12, 14, 22, 18, 12, 8, 8, 6) {
	case 0: // equal exponents
		x, y := mk(), mk()
		y.E = x.E
		if r.Bool() {
			y.Neg = x.Neg
		}
		return x, y, "equal-exponent"
	case 1: // different adjusted magnitudes
		x, y := mk(), mk()
		return x, y, "random"
	case 2: // equal digit-count+exponent sums, coefficients equal or 1 unit apart when aligned
		x := mk()
		if x.IsZero() {
			x.C = big.NewInt(7)
		}
		k := int64(1 + r.Intn(12))
		if r.Chance(1, 12) {
			k = int64(100 + r.Intn(300))
		}
		y := dec.D{Form: dec.Finite, Neg: x.Neg, C: new(big.Int).Mul(x.C, dec.Pow10(k)), E: x.E - k}
		switch r.Intn(3) {
		case 0:
			y.C.Add(y.C, bOne)
		case 1:
			if y.C.Cmp(dec.Pow10(dec.NumDigits(y.C)-1)) > 0 {
				y.C.Sub(y.C, bOne)
			}
		}
		if y.E < gen.MinExp {
			return x, mk(), "random"
		}
		if r.Bool() {
			x, y = y, x
		}
		if r.Chance(1, 6) {
			y.Neg = !y.Neg
		}
		return x, y, "aligned-compare"
	case 3: // cohort: equal value, different exponents
		x := mk()
		k := int64(1 + r.Intn(8))
		y := dec.D{Form: dec.Finite, Neg: x.Neg, C: new(big.Int).Mul(x.C, dec.Pow10(k)), E: x.E - k}
		if y.E < gen.MinExp {
			return x, mk(), "random"
		}
		if r.Bool() {
			x, y = y, x
		}
		return x, y, "cohort"
	case 4: // zeros of either sign and any exponent
		x, y := gen.Zero(r), mk()
		if r.Bool() {
			y = gen.Zero(r)
		}
		if r.Bool() {
			x, y = y, x
		}
		return x, y, "zeros"
	case 5: // infinities
		x, y := dec.Special(dec.Inf, r.Bool()), mk()
		if r.Chance(1, 3) {
			y = dec.Special(dec.Inf, r.Bool())
		}
		switch r.Intn(4) {
		case 0:
			// the representation an overflow produces (coefficient and exponent
			// of the value that did not fit are still there)
			x = gen.OverflowInf(r)
		case 1:
			// ... compared with that very value: what one computes by running an
			// operation in a narrow context and in a wide one
			x = dec.D{Form: dec.Inf, Neg: y.Neg, C: new(big.Int).Set(y.C), E: y.E}
			if y.Form != dec.Finite || r.Chance(1, 4) {
				x = gen.OverflowInf(r)
			}
		}
		if r.Bool() {
			x, y = y, x
		}
		return x, y, "infinities"
	case 6: // exponent gaps up to thousands (sparsely to the limit)
		x, y := mk(), mk()
		gap := r.Range(200, 3000)
		if r.Chance(1, 30) {
			gap = r.Range(20000, 90000)
		}
		y = gen.WithAdj(y.Neg, y.C, x.Adj()+int64(r.Intn(3))-1)
		y.C = new(big.Int).Mul(y.C, big.NewInt(1))
		// same adjusted magnitude but a huge exponent gap: pad y with zeros
		if gap < 4000 || r.Chance(1, 4) {
			y.C = new(big.Int).Mul(y.C, dec.Pow10(gap))
			y.E -= gap
		}
		if y.E < gen.MinExp || y.E > gen.MaxExp {
			return x, mk(), "random"
		}
		return x, y, "large-gap"
	default: // NaNs (for CmpTotal and Context.Cmp)
		x, y := gen.SpecialValue(r), gen.Any(r, c)
		if r.Bool() {
			x, y = y, x
		}
		return x, y, "specials"
	}
}

func cmpCase(t *mon.T) {
	r := t.Rng
	x, y, kind := cmpPair(r)
	ax, ay := br.ToApd(x), br.ToApd(y)
	t.Count("pair/" + kind)
	fd := map[string]interface{}{"x": x.FullString(), "y": y.FullString(), "kind": kind}
	if kind == "aligned-compare" || kind == "cohort" || kind == "large-gap" {
		t.Nontrivial("c|" + x.FullString() + "|" + y.FullString())
	}
	if !x.IsNaN() && !y.IsNaN() {
		want := dec.Cmp(x, y)
		got, rev := ax.Cmp(ay), ay.Cmp(ax)
		t.EvalN(2)
		if got != want || rev != -want {
			fd["got"], fd["reverse"], fd["want"] = got, rev, want
			t.Fail("cmp-wrong", fd)
			return
		}
		var d apd.Decimal
		res, err := apd.BaseContext.Cmp(&d, ax, ay)
		t.Eval()
		g := br.FromApd(&d)
		if err != nil || res != 0 || !dec.SameValue(g, dec.FromInt(int64(want), 0)) || g.E != 0 {
			fd["context_cmp"] = g.FullString()
			fd["want"] = want
			t.Fail("context-cmp-wrong", fd)
			return
		}
	} else {
		var d apd.Decimal
		ctx := apd.Context{Precision: 9, MaxExponent: 99, MinExponent: -99}
		res, err := ctx.Cmp(&d, ax, ay)
		t.Eval()
		g := br.FromApd(&d)
		wantInvalid := x.Form == dec.SNaN || y.Form == dec.SNaN
		if g.Form != dec.NaN || (res&apd.InvalidOperation != 0) != wantInvalid || err != nil {
			fd["context_cmp"] = g.FullString()
			fd["flags"] = br.FlagNames(res)
			t.Fail("context-cmp-wrong", fd)
			return
		}
	}
	// CmpTotal
	ct, ctr := ax.CmpTotal(ay), ay.CmpTotal(ax)
	t.EvalN(2)
	if ct != -ctr {
		fd["cmptotal"], fd["reverse"] = ct, ctr
		t.Fail("cmptotal-not-antisymmetric", fd)
		return
	}
	if ax.CmpTotal(ax) != 0 || ay.CmpTotal(ay) != 0 {
		t.Fail("cmptotal-not-reflexive", fd)
		return
	}
	want := refCmpTotal(x, y)
	if want != 2 {
		if ct != want {
			fd["cmptotal"], fd["want"] = ct, want
			t.Fail("cmptotal-wrong", fd)
			return
		}
		ident := dec.SameRepr(x, y)
		if (ct == 0) != ident {
			fd["cmptotal"] = ct
			fd["why"] = "zero exactly on identical representations"
			t.Fail("cmptotal-wrong", fd)
			return
		}
	} else if dec.SameRepr(x, y) && x.C.Cmp(y.C) == 0 && x.E == y.E && ct != 0 {
		// NaNs: only fully identical ones (payload and leftover exponent field
		// included) are held to compare equal; otherwise the order axioms decide
		t.Fail("cmptotal-wrong", fd)
		return
	}
	if t.WantSample() {
		t.Sample(map[string]interface{}{"x": x.String(), "y": y.String(), "kind": kind, "cmptotal": ct})
	}
}

// tripleCase: transitivity over a pool drawn across the paths.
func tripleCase(t *mon.T) {
	r := t.Rng
	pool := make([]dec.D, 0, 8)
	x, y, _ := cmpPair(r)
	pool = append(pool, x, y)
	for len(pool) < 7 {
		switch r.Intn(4) {
		case 0: // cohort member of an existing element
			b := pool[r.Intn(len(pool))]
			if b.Form == dec.Finite && b.E > gen.MinExp+20 {
				k := int64(1 + r.Intn(5))
				pool = append(pool, dec.D{Form: dec.Finite, Neg: b.Neg, C: new(big.Int).Mul(b.C, dec.Pow10(k)), E: b.E - k})
				continue
			}
			fallthrough
		case 1:
			a, b, _ := cmpPair(r)
			pool = append(pool, a, b)
		case 2:
			pool = append(pool, gen.SpecialValue(r))
		default:
			pool = append(pool, gen.Zero(r))
		}
	}
	ap := make([]*apd.Decimal, len(pool))
	for i := range pool {
		ap[i] = br.ToApd(pool[i])
	}
	// sort indices by CmpTotal, then verify the sorted chain is consistent with every pair
	idx := make([]int, len(pool))
	for i := range idx {
		idx[i] = i
	}
	sort.SliceStable(idx, func(i, j int) bool { return ap[idx[i]].CmpTotal(ap[idx[j]]) < 0 })
	t.Count("triples")
	t.Nontrivial(fmt.Sprintf("t|%s|%s|%s", pool[0].FullString(), pool[1].FullString(), pool[2].FullString()))
	for i := 0; i < len(idx); i++ {
		for j := i + 1; j < len(idx); j++ {
			c := ap[idx[i]].CmpTotal(ap[idx[j]])
			t.Eval()
			if c > 0 {
				// find a witness triple
				t.Fail("cmptotal-not-transitive", map[string]interface{}{"pool": poolStrings(pool), "sorted_order": idx, "i": idx[i], "j": idx[j],
					"why": "an element sorted earlier compares greater than a later one: the relation is not a total order on this pool"})
				return
			}
		}
	}
	// explicit triples
	for k := 0; k < 10; k++ {
		a, b, c := r.Intn(len(pool)), r.Intn(len(pool)), r.Intn(len(pool))
		ab, bc, ac := ap[a].CmpTotal(ap[b]), ap[b].CmpTotal(ap[c]), ap[a].CmpTotal(ap[c])
		t.Eval()
		if ab <= 0 && bc <= 0 && ac > 0 {
			t.Fail("cmptotal-not-transitive", map[string]interface{}{"a": pool[a].FullString(), "b": pool[b].FullString(), "c": pool[c].FullString(), "ab": ab, "bc": bc, "ac": ac})
			return
		}
		// Cmp agrees with CmpTotal on numerically different numbers
		if !pool[a].IsNaN() && !pool[b].IsNaN() {
			if nc := dec.Cmp(pool[a], pool[b]); nc != 0 && ab != nc {
				t.Fail("cmptotal-disagrees-with-cmp", map[string]interface{}{"a": pool[a].FullString(), "b": pool[b].FullString(), "cmptotal": ab, "cmp": nc})
				return
			}
		}
	}
}

func poolStrings(p []dec.D) []string {
	out := make([]string, len(p))
	for i := range p {
		out[i] = p[i].String()
	}
	return out
}

// digitSweepCase: coefficients just below a power of ten with d digits (where
// any bit-length based digit-count estimate is most fragile), compared with
// the same value written with one more trailing zero and a smaller exponent
// (a cohort pair: Cmp must be 0) and with neighbours one unit away.
func digitSweepCase(t *mon.T, d int64) {
	nines := new(big.Int).Sub(dec.Pow10(d), bOne)
	x := dec.D{Form: dec.Finite, Neg: t.Rng.Bool(), C: nines, E: 0}
	if t.Rng.Bool() && d > 8 {
		// leading nines, random tail
		x.C = new(big.Int).Sub(nines, big.NewInt(t.Rng.Range(0, 99999)))
	}
	ys := []dec.D{
		{Form: dec.Finite, Neg: x.Neg, C: new(big.Int).Mul(x.C, bTen), E: -1},                                 // equal value, cohort
		{Form: dec.Finite, Neg: x.Neg, C: new(big.Int).Add(new(big.Int).Mul(x.C, bTen), bOne), E: -1},         // slightly larger magnitude
		{Form: dec.Finite, Neg: x.Neg, C: big.NewInt(1), E: d},                                                // 10^d: larger magnitude
		{Form: dec.Finite, Neg: x.Neg, C: new(big.Int).Sub(new(big.Int).Mul(x.C, dec.Pow10(3)), bOne), E: -3}, // slightly smaller magnitude
		// short coefficients with the same adjusted exponent: the whole length
		// difference lies in the exponents (a gap of d-1 and d-2 places)
		{Form: dec.Finite, Neg: x.Neg, C: big.NewInt(t.Rng.Range(1, 9)), E: d - 1},
		{Form: dec.Finite, Neg: x.Neg, C: big.NewInt(t.Rng.Range(10, 99)), E: d - 2},
	}
	ax := br.ToApd(x)
	for _, y := range ys {
		ay := br.ToApd(y)
		want := dec.Cmp(x, y)
		got, rev := ax.Cmp(ay), ay.Cmp(ax)
		ct := ax.CmpTotal(ay)
		t.EvalN(3)
		wantT := refCmpTotal(x, y)
		if got != want || rev != -want || ct != wantT {
			t.Fail("cmp-wrong", map[string]interface{}{"kind": "digit-sweep", "digits": d, "x": x.String(), "y": y.String(), "cmp": got, "reverse": rev, "cmptotal": ct, "want": want, "want_total": wantT})
			return
		}
	}
	t.Count("pair/digit-sweep")
	t.Nontrivial(fmt.Sprintf("ds|%d|%v", d, x.Neg))
}

// twinPoolCase: a pool of coefficients that agree in length, in their most
// significant and in their least significant 64 bits but differ in between
// and lie on both sides of a power of ten (10^k, 10^k - 10^j, 10^k + 10^j,
// 10^k - 2^m ...), each under several exponents. Every ordered pair is
// compared, in shuffled order and repeatedly, against the exact comparison:
// anything remembered from one call (a digit count, a scaled coefficient)
// under a key that does not identify the value shows up as a wrong answer for
// the next value with the same key.
func twinPoolCase(t *mon.T) {
	r := t.Rng
	k := int64(70 + r.Intn(400))
	base := dec.Pow10(k)
	var coeffs []*big.Int
	coeffs = append(coeffs, new(big.Int).Set(base))
	for i := 0; i < 4; i++ {
		j := int64(64 + r.Intn(int(k-64)))
		d := new(big.Int).Set(dec.Pow10(j))
		if r.Bool() {
			d = new(big.Int).Lsh(big.NewInt(r.Range(1, 999)), uint(64+r.Intn(int(k)*3-64)))
			if d.Cmp(base) >= 0 {
				d = new(big.Int).Set(dec.Pow10(j))
			}
		}
		if r.Bool() {
			coeffs = append(coeffs, new(big.Int).Sub(base, d))
		} else {
			coeffs = append(coeffs, new(big.Int).Add(base, d))
		}
	}
	neg := r.Bool()
	var pool []dec.D
	for _, c := range coeffs {
		e := r.Range(-20, 20)
		pool = append(pool, dec.D{Form: dec.Finite, Neg: neg, C: c, E: e})
		// the same magnitude reached with another exponent, and its neighbour
		pool = append(pool, dec.D{Form: dec.Finite, Neg: neg, C: new(big.Int).Sub(dec.Pow10(k-1), bOne), E: e + 1 + int64(r.Intn(2))})
	}
	pool = append(pool, dec.FromInt(1, 0), dec.D{Form: dec.Finite, Neg: neg, C: new(big.Int).Set(base), E: -5})
	ap := make([]*apd.Decimal, len(pool))
	for i := range pool {
		ap[i] = br.ToApd(pool[i])
	}
	for pass := 0; pass < 3; pass++ {
		for n := 0; n < len(pool)*len(pool); n++ {
			i, j := r.Intn(len(pool)), r.Intn(len(pool))
			got, gotT := ap[i].Cmp(ap[j]), ap[i].CmpTotal(ap[j])
			t.EvalN(2)
			if want, wantT := dec.Cmp(pool[i], pool[j]), refCmpTotal(pool[i], pool[j]); got != want || gotT != wantT {
				t.Fail("cmp-wrong", map[string]interface{}{"kind": "twin-pool", "x": pool[i].String(), "y": pool[j].String(), "cmp": got, "cmptotal": gotT, "want": want, "want_total": wantT, "pass": pass})
				return
			}
		}
	}
	t.Count("pair/twin-pool")
	t.Nontrivial(fmt.Sprintf("tp|%d|%s", k, coeffs[1]))
}

// coincidenceGapCase: operands whose exponents differ by a k at which 10^k is
// within 5e-4 of a power of two (gen.CoincidenceExps), with coefficients just
// below powers of two and ten: the places where a comparison that is decided
// from bit lengths or digit-count estimates goes wrong first.
func coincidenceGapCase(t *mon.T, k int64) {
	r := t.Rng
	cs := []*big.Int{big.NewInt(1), big.NewInt(7), big.NewInt(9), big.NewInt(99), big.NewInt(1<<32 - 1), big.NewInt(1<<63 - 1),
		new(big.Int).SetUint64(1<<64 - 1), new(big.Int).Sub(new(big.Int).Lsh(bOne, 128), bOne), big.NewInt(r.Range(1, 1<<40))}
	c := cs[r.Intn(len(cs))]
	neg := r.Bool()
	y := dec.D{Form: dec.Finite, Neg: neg, C: c, E: k}
	scaled := new(big.Int).Mul(c, dec.Pow10(k))
	ay := br.ToApd(y)
	deltas := []*big.Int{new(big.Int), big.NewInt(-1), big.NewInt(1)}
	// ... and differences confined to a single bit or decimal digit somewhere
	// inside the low k digits (not only at the very end)
	for n := 0; n < 3; n++ {
		b := new(big.Int).Lsh(bOne, uint(r.Intn(int(float64(k)*3.32))))
		if r.Bool() {
			b = new(big.Int).Set(dec.Pow10(int64(r.Intn(int(k)))))
		}
		if r.Bool() {
			b.Neg(b)
		}
		deltas = append(deltas, b)
	}
	for _, delta := range deltas {
		x := dec.D{Form: dec.Finite, Neg: neg, C: new(big.Int).Add(scaled, delta), E: 0}
		if x.C.Sign() <= 0 {
			continue
		}
		ax := br.ToApd(x)
		want, wantT := dec.Cmp(x, y), refCmpTotal(x, y)
		got, rev, ct := ax.Cmp(ay), ay.Cmp(ax), ax.CmpTotal(ay)
		t.EvalN(3)
		if got != want || rev != -want || ct != wantT {
			t.Fail("cmp-wrong", map[string]interface{}{"kind": "coincidence-gap", "gap": k, "y": y.String(), "x_is_y_scaled_plus": delta.String(), "cmp": got, "reverse": rev, "cmptotal": ct, "want": want, "want_total": wantT})
			return
		}
	}
	t.Count("pair/coincidence-gap")
	t.Nontrivial(fmt.Sprintf("cg|%d|%s|%v", k, c, neg))
}

// bitTailCase: x = c*10^k + m*2^j against y = c E k for one small gap k and
// EVERY bit position j with m*2^j < 10^k (m = 1 and one other small odd
// multiplier), both orders and both signs of the tail: a comparison that
// looks at the low k digits through machine-word arithmetic sees a tail that
// is a multiple of 2^32 or 2^64 as zero.
func bitTailCase(t *mon.T, k int64) {
	r := t.Rng
	cs := []*big.Int{big.NewInt(1), big.NewInt(r.Range(2, 99)), big.NewInt(r.Range(100, 1<<40)), new(big.Int).SetUint64(1<<64 - 1),
		new(big.Int).Add(new(big.Int).Lsh(bOne, uint(r.Range(64, 200))), big.NewInt(r.Range(0, 9)))}
	c := cs[r.Intn(len(cs))]
	neg := r.Bool()
	y := dec.D{Form: dec.Finite, Neg: neg, C: c, E: k + r.Range(-3, 3)}
	if r.Chance(1, 2) {
		y.E = k
	}
	ay := br.ToApd(y)
	scaled := new(big.Int).Mul(c, dec.Pow10(k))
	lim := dec.Pow10(k)
	for j := uint(0); ; j++ {
		b := new(big.Int).Lsh(bOne, j)
		if b.Cmp(lim) >= 0 {
			break
		}
		for _, m := range []int64{1, 2*r.Range(1, 4) + 1} {
			tail := new(big.Int).Mul(b, big.NewInt(m))
			if tail.Cmp(lim) >= 0 {
				continue
			}
			for _, sg := range []int{1, -1} {
				cx := new(big.Int).Set(scaled)
				if sg > 0 {
					cx.Add(cx, tail)
				} else {
					cx.Sub(cx, tail)
				}
				if cx.Sign() <= 0 {
					continue
				}
				x := dec.D{Form: dec.Finite, Neg: neg, C: cx, E: y.E - k}
				ax := br.ToApd(x)
				want, wantT := dec.Cmp(x, y), refCmpTotal(x, y)
				got, rev, ct, ctr := ax.Cmp(ay), ay.Cmp(ax), ax.CmpTotal(ay), ay.CmpTotal(ax)
				t.EvalN(4)
				if got != want || rev != -want || ct != wantT || ctr != -wantT {
					t.Fail("cmp-wrong", map[string]interface{}{"kind": "bit-tail", "gap": k, "y": y.String(), "x": x.String(), "tail": fmt.Sprintf("%d*2^%d", int64(sg)*m, j),
						"cmp": got, "reverse": rev, "cmptotal": ct, "cmptotal_reverse": ctr, "want": want, "want_total": wantT})
					return
				}
			}
		}
	}
	t.Count("pair/bit-tail")
	t.Nontrivial(fmt.Sprintf("bt|%d|%s|%v", k, c, neg))
}

func runC15(r *mon.Run) {
	r.Rule = "pairs engineered for each path of Cmp: equal exponents; different adjusted magnitudes; equal digit-count+exponent sums with equal or " +
		"one-unit-different aligned coefficients; cohorts (equal value, different exponent); zeros of either sign and any exponent; " +
		"infinities; exponent gaps of hundreds to tens of thousands; NaN/sNaN of either sign. Decimal.Cmp and Context.Cmp are compared with " +
		"the exact comparison on big integers, CmpTotal with the documented ranking; antisymmetry, reflexivity, zero-iff-identical, and " +
		"transitivity on pools of 7 values (sorted-chain consistency plus explicit triples); a digit-count sweep compares, for every " +
		"coefficient length d up to 3000 (quick; 160 sampled lengths up to 120000) / every d up to 120000 (thorough), a nines-leading d-digit " +
		"coefficient with its cohort twin and three neighbours; exponent gaps and digit counts at every k up to 200200 where 10^k lies within 5e-4 of a power of two, with coefficients next to powers of two; for every gap 1..128, low digits equal to +/-m*2^j for every bit position j below the gap. distinct_nontrivial = distinct pairs that " +
		"reach the rescaled comparison or are cohort pairs, and distinct pools."
	r.Assumptions = []string{"math/big is correct", "NaN payload ordering is held only to the order axioms"}
	r.Parallel("pairs", r.N(400000, 40000000), cmpCase)
	r.Parallel("triples", r.N(60000, 5000000), tripleCase)
	// every digit count up to 3000 (quick) / 120000 (thorough), plus a sample of larger ones in quick
	sweepTo := r.N(3000, 120000)
	r.Parallel("digit-sweep", sweepTo, func(t *mon.T) { digitSweepCase(t, t.Index+1) })
	if r.Quick() {
		r.Parallel("digit-sweep-sampled", 160, func(t *mon.T) { digitSweepCase(t, t.Rng.Range(3001, 120000)) })
	}
	r.Parallel("twin-pools", r.N(600, 60000), twinPoolCase)
	// the same single-bit and single-digit differences at ordinary gaps of 129..2000 places
	r.Parallel("gap-perturbations", r.N(3000, 300000), func(t *mon.T) { coincidenceGapCase(t, t.Rng.Range(129, 2000)) })
	// small gaps 1..128: every bit position inside the low digits
	r.Parallel("bit-tails", 128*r.N(3, 60), func(t *mon.T) { bitTailCase(t, t.Index%128+1) })
	r.Require("pair/bit-tail", 300)
	coin := gen.CoincidenceExps(129, 200200, 5e-4)
	r.Parallel("coincidence-gaps", int64(len(coin))*r.N(2, 8), func(t *mon.T) { coincidenceGapCase(t, coin[t.Index%int64(len(coin))]) })
	r.Parallel("coincidence-digit-counts", int64(len(coin))*5, func(t *mon.T) {
		k := coin[t.Index/5]
		if k <= 120000 {
			digitSweepCase(t, k+[]int64{0, 1, 2, 20, 21}[t.Index%5])
		}
	})
	r.Extra("coincidence_exponents", len(coin))
	r.Extra("digit_sweep_every_digit_count_up_to", sweepTo)
	for _, k := range []string{"pair/equal-exponent", "pair/aligned-compare", "pair/cohort", "pair/zeros", "pair/infinities", "pair/large-gap", "pair/specials", "triples"} {
		r.Require(k, 1000)
	}
}
