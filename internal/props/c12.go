package props

import (
	"fmt"
	"math"
	"math/big"
	"os"
	"strings"
	"sync"

	"github.com/cockroachdb/apd/v3"

	"verif/internal/br"
	"verif/internal/dec"
	"verif/internal/encl"
	"verif/internal/gen"
	"verif/internal/mon"
	"verif/internal/rng"
)

func init() {
	register("C12", runC12)
}

func ratOf(d dec.D) *big.Rat {
	r := new(big.Rat)
	if d.E >= 0 {
		r.SetInt(new(big.Int).Mul(d.C, dec.Pow10(d.E)))
	} else {
		r.SetFrac(d.C, dec.Pow10(-d.E))
	}
	if d.Neg {
		r.Neg(r)
	}
	return r
}

// log10Floor estimates floor(log10(|f|)) for a non-zero big.Float; when the
// estimate is within 1e-6 of an integer boundary the larger value is
// returned (a larger unit can only make the check more lenient).
func log10Floor(f *big.Float) int64 {
	m := new(big.Float)
	e := f.MantExp(m)
	mf, _ := m.Float64()
	l := float64(e)*math.Log10(2) + math.Log10(math.Abs(mf))
	fl := math.Floor(l)
	if l-fl > 1-1e-6 {
		return int64(fl) + 1
	}
	return int64(fl)
}

type transOutcome struct {
	T       encl.Iv
	exact   *dec.D // the exact value when it is representable by definition
	skip    string
	certify bool
}

// widthFor chooses the working precision in bits.
func widthFor(c dec.Ctx, x, y dec.D, extraDigits int64) uint {
	d := c.P + x.Digits() + extraDigits + 14
	if y.C != nil {
		d += y.Digits() + abs64(y.Adj()) + 4
	}
	w := 96 + uint(float64(d)*3.33)
	return w
}

// transEnclosure computes the enclosure of the exact value of op(x[,y]).
func transEnclosure(op string, c dec.Ctx, x, y dec.D, w uint) transOutcome {
	one := dec.FromInt(1, 0)
	switch op {
	case "exp":
		if x.IsZero() {
			return transOutcome{exact: &one}
		}
		// |x| beyond any representable result: the enclosure would be astronomically large
		if x.Adj() > 6 {
			return transOutcome{skip: "exp-argument-beyond-1e7"}
		}
		xi := encl.FromRat(ratOf(x), w)
		return transOutcome{T: encl.Exp(xi), certify: true}
	case "ln", "log10":
		if x.Neg || x.IsZero() {
			return transOutcome{skip: "domain (C08)"}
		}
		if dec.Cmp(x, one) == 0 {
			z := dec.Zero(false, 0)
			return transOutcome{exact: &z}
		}
		l, ok := encl.LnRat(ratOf(x), w)
		if !ok {
			return transOutcome{skip: "ln-not-certified"}
		}
		if op == "log10" {
			l = encl.Div(l, encl.Ln10(w))
		}
		return transOutcome{T: l, certify: true}
	case "pow":
		if y.IsZero() {
			if x.IsZero() {
				return transOutcome{skip: "0**0 (C08)"}
			}
			return transOutcome{exact: &one}
		}
		if x.IsZero() {
			return transOutcome{skip: "zero base (C08)"}
		}
		yIsInt, yOdd := isOddInt(y)
		if x.Neg && !yIsInt {
			return transOutcome{skip: "negative base, fractional exponent (C08)"}
		}
		// exact integer powers that are cheap to compute
		if yIsInt && !y.Neg && y.Adj() <= 2 {
			var n int64
			if y.E < 0 {
				n = new(big.Int).Quo(y.C, dec.Pow10(-y.E)).Int64()
			} else {
				n = new(big.Int).Mul(y.C, dec.Pow10(y.E)).Int64()
			}
			if n > 0 && n <= 64 && x.Digits()*n <= 4000 {
				p := new(big.Int).Exp(x.C, big.NewInt(n), nil)
				v := dec.D{Form: dec.Finite, Neg: x.Neg && yOdd, C: p, E: x.E * n}
				// strip trailing zeros to see whether it fits the precision
				sig := new(big.Int).Set(p)
				for sig.Sign() != 0 && new(big.Int).Mod(sig, bTen).Sign() == 0 {
					sig.Quo(sig, bTen)
				}
				if dec.NumDigits(sig) <= c.P && v.Adj() <= c.Emax && v.Adj() >= c.Emin {
					return transOutcome{exact: &v}
				}
			}
		}
		ax := x
		ax.Neg = false
		var l encl.Iv
		if dec.Cmp(ax, one) == 0 {
			z := new(big.Float).SetPrec(w)
			l = encl.FromFloat(z, w)
		} else {
			var ok bool
			l, ok = encl.LnRat(ratOf(ax), w)
			if !ok {
				return transOutcome{skip: "ln-not-certified"}
			}
		}
		prod := encl.Mul(l, encl.FromRat(ratOf(y), w))
		// guard against astronomically large exponents
		if prod.Hi.MantExp(nil) > 24 || prod.Lo.MantExp(nil) > 24 {
			return transOutcome{skip: "pow-result-beyond-any-range"}
		}
		T := encl.Exp(prod)
		if x.Neg && yOdd {
			T = encl.Neg(T)
		}
		return transOutcome{T: T, certify: true}
	}
	panic("transEnclosure: " + op)
}

func pow10Iv(q int64, w uint) encl.Iv {
	if q >= 0 {
		return encl.FromInt(dec.Pow10(q), w)
	}
	return encl.FromRat(new(big.Rat).SetFrac(bOne, dec.Pow10(-q)), w)
}

// transCase checks one call of Exp/Ln/Log10/Pow against its enclosure.
func transCase(t *mon.T, which string, op string, c dec.Ctx, x, y dec.D) {
	o := CallArith(op, br.Context(c, 0), x, y)
	t.Eval()
	if which == "fit" {
		if o.Err != nil {
			t.Skip("error:" + op)
			return
		}
		t.Count("op/" + op)
		if why := CheckFit(c, o); why != "" {
			t.Fail("fit-mismatch", detail(op, c, x, y, o, why))
		}
		return
	}
	fail := func(kind, cls, why string, extra map[string]interface{}) {
		d := detail(op, c, x, y, o, why)
		for k, v := range extra {
			d[k] = v
		}
		t.FailClass(kind, cls, d)
	}
	if o.Err != nil {
		msg := o.Err.Error()
		t.Count("error/" + op)
		if strings.Contains(msg, "did not converge") {
			fail("no-result", "", "error instead of a result: "+firstWords(msg, 12), nil)
		} else {
			// system limits (exponent range, iteration cap, zero precision) are not
			// results; their share is bounded by a quota at the end of the run
			t.Skip("error:" + op + ":" + firstWords(msg, 3))
		}
		return
	}
	if o.Flags&^br.AllFlags != 0 {
		fail("flags-mismatch", "", "undocumented condition bits", nil)
		return
	}
	w := widthFor(c, x, y, 0)
	var tr transOutcome
	for attempt := 0; attempt < 3; attempt++ {
		tr = transEnclosure(op, c, x, y, w)
		if tr.skip == "ln-not-certified" {
			w *= 2
			continue
		}
		break
	}
	if tr.skip != "" {
		t.Skip(tr.skip)
		return
	}
	t.Count("op/" + op)
	t.Nontrivial(fmt.Sprintf("%s|%s|%s|%s", op, c, x.FullString(), y.FullString()))
	if tr.exact != nil {
		t.Count("class/exact-by-definition")
		want := fromRounded(dec.RoundOnce(dec.ExactOf(*tr.exact), c))
		if tr.exact.IsZero() {
			want = Expect{Res: dec.Zero(false, 0)}
		}
		if !dec.SameValue(o.Res, want.Res) && !(want.Res.IsZero() && o.Res.IsZero()) {
			fail("value-mismatch", "", "a result that is exactly representable by definition was not returned exactly", map[string]interface{}{"expected": want.Res.FullString()})
		}
		return
	}
	T := tr.T
	if enclDump != nil {
		enclWrite(op, x, y, T)
	}
	// early-overflow known finding of Exp
	expEarly := func() string {
		if op != "exp" {
			return ""
		}
		ax := x
		ax.Neg = false
		if dec.Cmp(ax, dec.FromInt(23000, 0)) >= 0 && dec.Cmp(ax, dec.FromInt(23*c.P, 0)) > 0 {
			return "exp_early_overflow_cutoff"
		}
		return ""
	}
	adjT := log10Floor(T.Hi)
	if a2 := log10Floor(T.Lo); a2 > adjT {
		adjT = a2
	}
	if o.Res.Form == dec.Inf || (o.Flags&apd.Overflow != 0) {
		t.Count("class/overflow-reported")
		// legitimate only if the exact value is not more than one unit below the
		// largest finite number (10^p - 1) * 10^(Emax-p+1)
		bound := encl.Mul(encl.FromInt(new(big.Int).Sub(dec.Pow10(c.P), big.NewInt(2)), w), pow10Iv(c.Emax-c.P+1, w))
		aT := T
		if T.Hi.Sign() < 0 {
			aT = encl.Neg(T)
		}
		if adjT <= c.Emax && aT.Hi.Cmp(bound.Lo) < 0 {
			fail("false-overflow", expEarly(), fmt.Sprintf("Overflow/Infinity reported but the exact value (about %s) is inside the range: MaxExponent %d", T.Mid().Text('e', 12), c.Emax), nil)
		}
		return
	}
	if o.Flags&(apd.Underflow|apd.Subnormal) != 0 {
		t.Count("class/underflow-reported")
		// legitimate only if the exact value is below 10^Emin (two units of slack)
		lb := encl.Add(pow10Iv(c.Emin, w), encl.Mul(encl.FromInt(big.NewInt(2), w), pow10Iv(c.Emin-c.P+1, w)))
		aT := T
		if T.Hi.Sign() < 0 {
			aT = encl.Neg(T)
		}
		if aT.Lo.Cmp(lb.Hi) > 0 {
			fail("false-underflow", expEarly(), fmt.Sprintf("Underflow/Subnormal reported but the exact value (about %s) is above 10^MinExponent, MinExponent %d", T.Mid().Text('e', 12), c.Emin), nil)
			return
		}
	}
	if o.Res.Form != dec.Finite {
		fail("value-mismatch", "", "non-finite result", nil)
		return
	}
	// unit in the last place
	adj := adjT
	if o.Res.C.Sign() != 0 && o.Res.Adj() > adj {
		adj = o.Res.Adj()
	}
	q := adj - c.P + 1
	if et := c.Etiny(); q < et {
		q = et
	}
	R := encl.FromRat(ratOf(o.Res), w)
	u := pow10Iv(q, w)
	// inconclusive if the enclosure is wider than u/1024
	wd := T.Width()
	lim := new(big.Float).SetPrec(w).SetMantExp(u.Lo, -10)
	if wd.Cmp(lim) > 0 {
		t.Skip("enclosure-too-wide")
		t.Count("inconclusive")
		return
	}
	over := new(big.Float).SetPrec(w).SetMode(big.ToNegativeInf).Sub(R.Lo, T.Hi)  // R - hi, rounded down
	under := new(big.Float).SetPrec(w).SetMode(big.ToNegativeInf).Sub(T.Lo, R.Hi) // lo - R, rounded down
	errv := over
	if under.Cmp(over) > 0 {
		errv = under
	}
	// histogram of the observed error in units
	ratio := new(big.Float).SetPrec(64).Quo(errv, u.Lo)
	rf, _ := ratio.Float64()
	switch {
	case rf <= 0:
		t.Count("err/inside-enclosure")
	case rf <= 0.5:
		t.Count("err/0-0.5ulp")
	case rf <= 1:
		t.Count("err/0.5-1ulp")
	default:
		t.Count("err/above-1ulp")
	}
	nearest := c.Mode == "half_even" || c.Mode == "half_up" || c.Mode == "half_down" || c.Mode == "" || c.Mode == "bogus_mode"
	if nearest {
		t.R.ChildMax("err_ulps_nearest_"+op, rf)
	} else {
		t.R.ChildMax("err_ulps_directed_"+op, rf)
	}
	if over.Cmp(u.Hi) > 0 || under.Cmp(u.Hi) > 0 {
		cls := expEarly()
		if cls == "" && !nearest && rf <= directedSlack {
			// KF-C12-directed-rounding: the functions round an approximation with
			// the caller's directed mode, so the error can reach 1 + eps units
			cls = "directed_rounding_of_approximation"
			t.Count("kf/directed-rounding")
		}
		fail("more-than-one-ulp", cls, fmt.Sprintf("result differs from the exact value by about %.3g units in the last place (unit 1E%d)", rf, q),
			map[string]interface{}{"exact_about": T.Mid().Text('e', 40)})
		return
	}
	if o.Res.Neg != (T.Lo.Sign() < 0) && o.Res.C.Sign() != 0 {
		fail("value-mismatch", "", "wrong sign", nil)
	}
	if t.WantSample() {
		t.Sample(map[string]interface{}{"op": op, "ctx": c.String(), "x": x.String(), "y": fmt.Sprint(y), "result": o.Res.String(), "error_in_ulps": rf, "enclosure_bits": w})
	}
}

// directedSlack bounds the error (in units in the last place) attributed to
// known finding KF-C12-directed-rounding.
const directedSlack = 1.06

func firstWords(s string, n int) string {
	f := strings.Fields(s)
	if len(f) > n {
		f = f[:n]
	}
	return strings.Join(f, " ")
}

// ---- operand generators

func transContext(r *rng.R) dec.Ctx {
	p := int64(1 + r.Intn(40))
	switch r.Intn(5) {
	case 0:
		p = int64(41 + r.Intn(20))
	case 1:
		// few digits: the fixed number of guard digits is proportionally smallest
		p = int64(1 + r.Intn(6))
	}
	c := gen.ContextP(r, p)
	if c.Emax < 40 && r.Chance(3, 4) {
		c.Emin, c.Emax = -383, 384
	}
	if c.Emax < c.P {
		c.Emax = c.P
	}
	c.Mode = gen.Mode(r)
	return c
}

func digitsN(r *rng.R, c dec.Ctx) *big.Int {
	n := int64(1 + r.Intn(int(c.P)+2))
	if r.Chance(1, 4) {
		n = int64(1 + r.Intn(int(3*c.P)))
	}
	v, _ := new(big.Int).SetString(gen.Digits(r, n), 10)
	return v
}

func expOperand(r *rng.R, c dec.Ctx) dec.D {
	if r.Chance(1, 12) {
		// 23*k +/- a hair (Exp sizes its working precision from |x|/23 in
		// float64): the excess is below float64 resolution
		k := r.Range(1, 999)
		j := int64(17 + r.Intn(25))
		v := new(big.Int).Mul(big.NewInt(23*k), dec.Pow10(j))
		v.Add(v, big.NewInt(r.Range(-2, 2)))
		return dec.D{Form: dec.Finite, Neg: r.Bool(), C: v, E: -j}
	}
	cf := digitsN(r, c)
	var adj int64
	switch r.Pick(45, 20, 15, 12, 8) {
	case 0:
		adj = r.Range(-3, 2)
	case 1:
		adj = r.Range(-40, -4)
	case 2: // up to the overflow threshold of the context
		lim := math.Log10(float64(c.Emax+1) * math.Ln10)
		adj = int64(math.Floor(lim)) - int64(r.Intn(2))
	case 3:
		adj = r.Range(3, 5)
	default:
		adj = r.Range(-3*c.P-5, -c.P)
	}
	return gen.WithAdj(r.Bool(), cf, adj)
}

func lnOperand(r *rng.R, c dec.Ctx) dec.D {
	if r.Chance(1, 10) {
		// just outside 1 +/- 0.1, where |ln x| is still below 0.1: a logarithm
		// assembled as ln(x/10) + ln(10) loses a leading digit to cancellation
		// (uniformly random digits: the size of the error depends on all of them)
		lead := r.Range(1100000, 1106000)
		if r.Chance(1, 4) {
			lead = r.Range(894000, 906000)
		}
		v := new(big.Int).Add(new(big.Int).Mul(big.NewInt(lead), dec.Pow10(9)), big.NewInt(r.Range(0, 999999999)))
		e := int64(-15)
		if r.Bool() {
			// fewer digits
			k := int64(1 + r.Intn(12))
			v.Quo(v, dec.Pow10(k))
			e += k
		}
		return dec.D{Form: dec.Finite, C: v, E: e}
	}
	switch r.Pick(30, 25, 15, 15, 15) {
	case 0: // 1 +/- 10^-k
		k := int64(1 + r.Intn(int(2*c.P)+1))
		v := new(big.Int).Set(dec.Pow10(k))
		delta := big.NewInt(r.Range(1, 9))
		if r.Bool() {
			v.Add(v, delta)
		} else {
			v.Sub(v, delta)
		}
		return dec.D{Form: dec.Finite, C: v, E: -k}
	case 1: // random
		return gen.WithAdj(false, digitsN(r, c), r.Range(-6, 6))
	case 2: // powers of ten and neighbours
		e := r.Range(-30, 30)
		v := dec.D{Form: dec.Finite, C: big.NewInt(1), E: e}
		if r.Bool() {
			k := int64(1 + r.Intn(int(c.P)+3))
			v = dec.D{Form: dec.Finite, C: new(big.Int).Add(dec.Pow10(k), big.NewInt(r.Range(-1, 1))), E: e - k}
		}
		return v
	case 3: // huge and tiny magnitudes
		e := r.Range(100, 99000)
		if r.Bool() {
			e = -e
		}
		return gen.WithAdj(false, digitsN(r, c), e)
	default: // near 1 with many digits
		k := int64(int(c.P) + r.Intn(int(c.P)+5))
		v := new(big.Int).Add(dec.Pow10(k), digitsN(r, c))
		return dec.D{Form: dec.Finite, C: v, E: -k}
	}
}

func powOperands(r *rng.R, c dec.Ctx) (dec.D, dec.D) {
	switch r.Pick(25, 20, 15, 15, 10, 15) {
	case 0: // small integer exponent, exact when it fits
		x := dec.D{Form: dec.Finite, Neg: r.Bool(), C: big.NewInt(r.Range(1, 99)), E: r.Range(-3, 2)}
		return x, dec.FromInt(r.Range(-9, 9), 0)
	case 1: // fractional exponent
		x := gen.WithAdj(false, digitsN(r, c), r.Range(-3, 3))
		y := dec.D{Form: dec.Finite, Neg: r.Bool(), C: big.NewInt(r.Range(1, 9999)), E: r.Range(-4, -1)}
		return x, y
	case 2: // base near 1, large integer exponent
		k := int64(2 + r.Intn(int(c.P)+2))
		v := new(big.Int).Add(dec.Pow10(k), big.NewInt(r.Range(-9, 9)))
		x := dec.D{Form: dec.Finite, C: v, E: -k}
		y := dec.FromInt(r.Range(-100000, 100000), 0)
		switch r.Intn(3) {
		case 0:
			y = dec.FromInt(r.Range(-2000, 2000), 0)
		case 1:
			// |y| about 10^k so that the result stays moderate: a huge integer
			// exponent, written with a short coefficient and a positive exponent
			// or spelled out in full
			m := r.Range(1, 99)
			if r.Chance(1, 4) {
				m = r.Range(100, 99999)
			}
			e := k - 2 + int64(r.Intn(4)) - (dec.NumDigits(big.NewInt(m)) - 1)
			if e < 0 {
				e = 0
			}
			y = dec.D{Form: dec.Finite, Neg: r.Bool(), C: big.NewInt(m), E: e}
			if r.Bool() {
				y = dec.D{Form: dec.Finite, Neg: y.Neg, C: new(big.Int).Mul(y.C, dec.Pow10(e)), E: 0}
			}
			if r.Chance(1, 3) {
				// ... with a fractional part as well (the integer part still goes
				// through repeated squaring), and a base with generic digits
				// behind the run of zeros or nines
				f := int64(r.Range(1, 99))
				y = dec.D{Form: dec.Finite, Neg: y.Neg, C: new(big.Int).Add(new(big.Int).Mul(new(big.Int).Mul(y.C, dec.Pow10(y.E)), big.NewInt(100)), big.NewInt(f)), E: -2}
				tail := r.Range(1, 9999999)
				v2 := new(big.Int).Mul(dec.Pow10(k), dec.Pow10(7))
				if r.Bool() {
					v2.Add(v2, big.NewInt(tail))
				} else {
					v2.Sub(v2, big.NewInt(tail))
				}
				x = dec.D{Form: dec.Finite, C: v2, E: -(k + 7)}
			}
		}
		return x, y
	case 3: // integer exponents up to +/-1e5 on small bases (results may leave the range)
		x := gen.WithAdj(r.Bool(), digitsN(r, c), r.Range(-1, 1))
		y := dec.FromInt(r.Range(-3000, 3000), 0)
		if r.Chance(1, 4) {
			y = dec.FromInt(r.Range(-99999, 99999), 0)
		}
		return x, y
	case 4: // x**0, x**1, integer written with a positive exponent or trailing zeros
		x := gen.WithAdj(r.Bool(), digitsN(r, c), r.Range(-5, 5))
		ys := []dec.D{dec.FromInt(0, 0), dec.FromInt(1, 0), dec.Zero(true, 3), {Form: dec.Finite, C: big.NewInt(10), E: -1}, {Form: dec.Finite, C: big.NewInt(2), E: 1}, {Form: dec.Finite, C: big.NewInt(300), E: -2}}
		return x, ys[r.Intn(len(ys))]
	default:
		x := gen.WithAdj(false, digitsN(r, c), r.Range(-8, 8))
		y := gen.WithAdj(r.Bool(), digitsN(r, c), r.Range(-3, 1))
		return x, y
	}
}

// floatToDec converts f to a decimal of nd significant digits (nearest).
func floatToDec(f *big.Float, nd int) (dec.D, error) {
	txt := f.Text('e', nd-1) // [-]d.ddde[+-]xx
	neg := strings.HasPrefix(txt, "-")
	txt = strings.TrimPrefix(txt, "-")
	i := strings.IndexByte(txt, 'e')
	if i < 0 {
		return dec.D{}, fmt.Errorf("bad float text %q", txt)
	}
	mant, es := txt[:i], txt[i+1:]
	var e int64
	if _, err := fmt.Sscanf(es, "%d", &e); err != nil {
		return dec.D{}, err
	}
	frac := 0
	if j := strings.IndexByte(mant, '.'); j >= 0 {
		frac = len(mant) - j - 1
		mant = mant[:j] + mant[j+1:]
	}
	c, ok := new(big.Int).SetString(mant, 10)
	if !ok {
		return dec.D{}, fmt.Errorf("bad mantissa %q", mant)
	}
	return dec.D{Form: dec.Finite, Neg: neg, C: c, E: e - int64(frac)}, nil
}

// rangeEdgeCase aims Exp and Pow results at the decades around MaxExponent
// and MinExponent, where overflow/underflow reporting is decided.
func rangeEdgeCase(t *mon.T, which string) {
	r := t.Rng
	c := transContext(r)
	if c.Emax > 7000 {
		c.Emin, c.Emax = -383, 384
	}
	// target decimal exponent of the result
	var tgt float64
	if r.Bool() {
		tgt = float64(c.Emax) + float64(r.Range(-150, 200))/100
	} else {
		tgt = float64(c.Emin) + float64(r.Range(-250, 150))/100
		if r.Bool() {
			tgt = float64(c.Etiny()) + float64(r.Range(-250, 150))/100
		}
	}
	toDec := func(f float64, digits int) dec.D {
		neg := f < 0
		f = math.Abs(f)
		e := int64(math.Floor(math.Log10(f))) - int64(digits) + 1
		m := int64(f / math.Pow(10, float64(e)))
		return dec.D{Form: dec.Finite, Neg: neg, C: big.NewInt(m), E: e}
	}
	if r.Chance(1, 4) {
		// arguments that hug the overflow threshold (Emax+1)*ln(10) from below,
		// or the threshold of the smallest representable value from above, to
		// within a few units of digit Precision+3..Precision+9: any test of the
		// form "x > bound" with a rounded bound decides these wrongly
		w := uint(400 + 4*c.P)
		ln10 := encl.Ln10(w).Lo
		k := c.Emax + 1
		if r.Chance(1, 3) {
			k = c.Etiny()
		}
		T := new(big.Float).SetPrec(w).Mul(ln10, new(big.Float).SetPrec(w).SetInt64(k))
		// move a hair towards zero (inside the range), then cut to nd digits towards zero
		nd := int(c.P) + 3 + r.Intn(7)
		hair := new(big.Float).SetPrec(w).SetMantExp(big.NewFloat(1), -int(float64(c.P+int64(3+r.Intn(8)))*3.33))
		T.Mul(T, new(big.Float).SetPrec(w).Sub(big.NewFloat(1), hair))
		x, err := floatToDec(T, nd) // rounds to nearest; stepped towards zero below
		if err == nil {
			// make sure |x| <= |T|: step one unit towards zero
			x.C = new(big.Int).Sub(x.C, bOne)
			if x.C.Sign() > 0 {
				transCase(t, which, "exp", c, x, dec.D{})
				t.Count("range-edge/exp-threshold")
				t.Count("range-edge/exp")
				return
			}
		}
	}
	if r.Bool() {
		x := toDec(tgt*math.Ln10, 6+r.Intn(8))
		transCase(t, which, "exp", c, x, dec.D{})
		t.Count("range-edge/exp")
		return
	}
	// pow: x = m * 10^a with log10(x) = l; y = tgt / l
	a := r.Range(5, 200)
	if r.Bool() {
		a = -a
	}
	x := gen.WithAdj(false, big.NewInt(r.Range(1, 999)), a)
	l := math.Log10(float64(x.C.Int64())) + float64(x.E)
	y := toDec(tgt/l, 4+r.Intn(5))
	transCase(t, which, "pow", c, x, y)
	t.Count("range-edge/pow")
}

func transRandomCase(t *mon.T, which string) {
	r := t.Rng
	c := transContext(r)
	switch r.Intn(4) {
	case 0:
		transCase(t, which, "exp", c, expOperand(r, c), dec.D{})
	case 1:
		transCase(t, which, "ln", c, lnOperand(r, c), dec.D{})
	case 2:
		transCase(t, which, "log10", c, lnOperand(r, c), dec.D{})
	default:
		x, y := powOperands(r, c)
		transCase(t, which, "pow", c, x, y)
	}
}

// transcendentalFit is the C07 share of this workload (fit only) plus Cbrt.
func transcendentalFit(r *mon.Run) {
	r.Parallel("fit-transcendental", r.N(12000, 600000), func(t *mon.T) {
		if t.Rng.Chance(1, 5) {
			c := gen.Context(t.Rng)
			if c.P > 40 {
				c.P = 40
			}
			cbrtCase(t, "fit", c, cbrtOperand(t.Rng, c))
			return
		}
		transRandomCase(t, "fit")
	})
}

func runC12(r *mon.Run) {
	r.Rule = "cases: Exp on |x| from 1e-40 (and below 1e-p) up to the context's overflow threshold, both signs, 1..3p digits; Ln/Log10 on 1 +/- 10^-k " +
		"(k <= 2p), powers of ten and their neighbours, magnitudes up to 1e+/-99000, values near 1 with many digits; Pow with small exact " +
		"integer powers, fractional exponents, bases near 1 with integer exponents up to +/-1e5, x**0, x**1, integers written with positive " +
		"exponents; Precision 1..60, all rounding modes. Oracle: a rigorous interval enclosure of the exact real value computed with " +
		"directed-rounding big.Float arithmetic (exp by argument halving + Taylor with remainder bound + squaring; ln by a certified Newton " +
		"candidate: hi(exp(y-d)) <= x <= lo(exp(y+d))). A finite result must lie within one unit in the last place of the enclosure; results " +
		"exactly representable by definition must be returned exactly; Overflow/Underflow may be reported only if the enclosure is outside " +
		"the range (one-decade margin). distinct_nontrivial = distinct (op, context, operands) decided against an enclosure."
	r.Assumptions = []string{"math/big.Float directed rounding is correct", "errors returned by apd (too many iterations, exponent limits, zero precision) are not results and are counted as skipped",
		"Exp cases inside the early-overflow class of known finding KF-C12-exp-early-overflow are attributed to it"}
	r.Witness("KF-C12-exp-early-overflow", func() (bool, string) {
		c := dec.Ctx{P: 9, Emin: -100000, Emax: 100000, Mode: "half_even"}
		x := dec.FromInt(30000, 0)
		o := CallArith("exp", br.Context(c, 0), x, dec.D{})
		return o.Flags&apd.Overflow != 0, fmt.Sprintf("Exp(30000) at %s returned %s [%s]; the exact value is about 1E+13028", c, o.Res, br.FlagNames(o.Flags))
	})
	r.Witness("KF-C12-directed-rounding", func() (bool, string) {
		c := dec.Ctx{P: 38, Emin: -383, Emax: 384, Mode: "up"}
		x, _ := dec.Parse("182536735091770E-10")
		o := CallArith("ln", br.Context(c, 0), x, dec.D{})
		// exact ln = 9.8121216269289733573027380520946711122976...; the correctly
		// rounded-up 38-digit value ends in ...1123
		bad := o.Res.FullString() == "98121216269289733573027380520946711124E-37"
		return bad, fmt.Sprintf("Ln(%s) at %s returned %s, 1.02 units above the exact value 9.81212162692897335730273805209467111229...", x, c, o.Res)
	})
	r.Parallel("transcendental", r.N(20000, 3000000), func(t *mon.T) { transRandomCase(t, "value") })
	r.Parallel("range-edge", r.N(6000, 600000), func(t *mon.T) { rangeEdgeCase(t, "value") })
	r.Parallel("exp-long-argument", r.N(4000, 300000), func(t *mon.T) {
		// arguments with more digits than the precision (fixed defect: the argument was rounded first)
		c := transContext(t.Rng)
		if c.P > 12 {
			c.P = int64(1 + t.Rng.Intn(12))
		}
		n := c.P + int64(2+t.Rng.Intn(12))
		cf, _ := new(big.Int).SetString(gen.Digits(t.Rng, n), 10)
		x := gen.WithAdj(t.Rng.Bool(), cf, t.Rng.Range(0, 2))
		transCase(t, "value", "exp", c, x, dec.D{})
		t.Count("exp-long-argument")
	})
	r.Parallel("high-precision", r.N(240, 12000), func(t *mon.T) {
		// several hundred to 1200 digits: float64 estimates inside the
		// implementation (of the argument, of 10^-p) run out of range there
		rr := t.Rng
		c := dec.Ctx{P: rr.Range(300, 1200), Emin: -100000, Emax: 100000, Mode: gen.Mode(rr)}
		switch rr.Intn(5) {
		case 0: // tiny arguments: exp(x) = 1 + x + ... with |x| between 10^-(P+2) and 10^-300
			x := dec.D{Form: dec.Finite, Neg: rr.Bool(), C: big.NewInt(rr.Range(1, 99999)), E: -rr.Range(300, c.P+4)}
			transCase(t, "value", "exp", c, x, dec.D{})
		case 1:
			x := gen.WithAdj(rr.Bool(), big.NewInt(rr.Range(1, 999999)), rr.Range(-8, 2))
			transCase(t, "value", "exp", c, x, dec.D{})
		case 2:
			transCase(t, "value", "ln", c, dec.D{Form: dec.Finite, C: big.NewInt(rr.Range(2, 99999)), E: rr.Range(-6, 3)}, dec.D{})
		case 3:
			transCase(t, "value", "log10", c, dec.D{Form: dec.Finite, C: big.NewInt(rr.Range(2, 99999)), E: rr.Range(-6, 3)}, dec.D{})
		default:
			x := dec.D{Form: dec.Finite, C: big.NewInt(rr.Range(2, 999)), E: rr.Range(-3, 0)}
			y := dec.D{Form: dec.Finite, Neg: rr.Bool(), C: big.NewInt(rr.Range(1, 999)), E: -rr.Range(1, 3)}
			transCase(t, "value", "pow", c, x, y)
		}
		t.Count("high-precision")
	})
	r.Require("high-precision", 200)
	r.Parallel("exp-large", r.N(300, 20000), func(t *mon.T) {
		// the early-overflow zone: |x| between 23000 and the true threshold
		c := dec.Ctx{P: int64(1 + t.Rng.Intn(20)), Emin: -100000, Emax: 100000, Mode: gen.Mode(t.Rng)}
		x := dec.FromInt(t.Rng.Range(15000, 240000), 0)
		if t.Rng.Bool() {
			x.Neg = true
		}
		transCase(t, "value", "exp", c, x, dec.D{})
		t.Count("exp-large")
	})
	r.Serial("pinned", func(t *mon.T) {
		c := dec.Ctx{P: 4, Emin: -99, Emax: 99, Mode: "half_even"}
		x, _ := dec.Parse("-3977600635E-8")
		transCase(t, "value", "exp", c, x, dec.D{})
		t.Count("pinned")
		// fixed: Exp reported a false overflow a hair above a multiple of 23
		for _, xs := range []string{"2300000000000000000000000001E-25", "-2300000000000000000000000001E-25", "2299999999999999999999999999E-25"} {
			x4, _ := dec.Parse(xs)
			transCase(t, "value", "exp", dec.Ctx{P: 5, Emin: -999, Emax: 999, Mode: "half_even"}, x4, dec.D{})
			transCase(t, "value", "exp", dec.Ctx{P: 10, Emin: -999, Emax: 999, Mode: "half_even"}, x4, dec.D{})
		}
		// fixed: Ln did not converge with MinExponent 0
		x2, _ := dec.Parse("613974E-1737")
		transCase(t, "value", "ln", dec.Ctx{P: 4, Emin: 0, Emax: 50, Mode: "half_down"}, x2, dec.D{})
		x3, _ := dec.Parse("58766946476195139152733326900E-28")
		transCase(t, "value", "ln", dec.Ctx{P: 58, Emin: 0, Emax: 58, Mode: "half_even"}, x3, dec.D{})
		// fixed: Ln lost a digit to cancellation for 1.1 < x < e^0.1
		for _, m := range []string{"half_even", "down", "half_up"} {
			x5, _ := dec.Parse("110129690E-8")
			transCase(t, "value", "ln", dec.Ctx{P: 4, Emin: -383, Emax: 384, Mode: m}, x5, dec.D{})
			x6, _ := dec.Parse("110155080E-8")
			transCase(t, "value", "ln", dec.Ctx{P: 2, Emin: -383, Emax: 384, Mode: m}, x6, dec.D{})
		}
		// fixed: Pow lost accuracy with integer exponents beyond about 1e10
		for _, xy := range [][2]string{{"10000000001E-10", "9E10"}, {"10000000000000001E-16", "7E16"}, {"10000000000000001E-16", "70000000000000000E0"}, {"99999999999999E-14", "-3E14"}} {
			px, _ := dec.Parse(xy[0])
			py, _ := dec.Parse(xy[1])
			transCase(t, "value", "pow", dec.Ctx{P: 20, Emin: -6143, Emax: 6144, Mode: "half_even"}, px, py)
		}
		t.Count("pinned")
	})
	if !r.IsReplay() {
		// errors instead of results must stay rare (unchanged tree: none for exp/ln/log10, ~0.1% for pow)
		for op, permille := range map[string]int64{"exp": 10, "ln": 10, "log10": 10, "pow": 50} {
			if e, n := r.Hist("error/"+op), r.Hist("op/"+op); e*1000 > permille*(n+e) {
				r.Serial("error-quota-"+op, func(t *mon.T) {
					t.Fail("errors-instead-of-results", map[string]interface{}{"op": op, "errors": e, "results": n, "why": fmt.Sprintf("more than %d per mille of the calls returned an error instead of a value", permille)})
				})
			}
		}
	}
	for _, k := range []string{"op/exp", "op/ln", "op/log10", "op/pow", "class/exact-by-definition", "class/overflow-reported", "class/underflow-reported", "err/0-0.5ulp", "exp-long-argument", "range-edge/exp", "range-edge/pow"} {
		r.Require(k, 100)
	}
}

// Development-time dump of enclosures for the libmpdec cross-check
// (tools/xcheck_encl.py); enabled by VERIF_XCHECK_ENCL=<file>.
var (
	enclDump *os.File
	enclMu   sync.Mutex
	enclN    int
)

func init() {
	if p := os.Getenv("VERIF_XCHECK_ENCL"); p != "" {
		enclDump, _ = os.Create(p)
	}
}

func enclWrite(op string, x, y dec.D, T encl.Iv) {
	// keep the dump cheap: skip astronomically large/small results
	if e := T.Hi.MantExp(nil); e > 20000 || e < -20000 {
		return
	}
	enclMu.Lock()
	defer enclMu.Unlock()
	if enclN >= 60000 {
		return
	}
	enclN++
	ys := ""
	if y.C != nil {
		ys = y.FullString()
	}
	fmt.Fprintf(enclDump, "%s\t%s\t%s\t%s\t%s\n", op, x.FullString(), ys, T.Lo.Text('e', 70), T.Hi.Text('e', 70))
}
