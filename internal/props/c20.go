package props

import (
	"fmt"
	"math/big"
	"math/rand"
	"sort"

	"github.com/cockroachdb/apd/v3"

	"verif/internal/br"
	"verif/internal/dec"
	"verif/internal/gen"
	"verif/internal/mon"
	"verif/internal/rng"
)

func init() {
	register("C20", runC20)
}

// rngSource adapts the deterministic generator to math/rand for big.Int.Rand.
type rngSrc struct{ r *rng.R }

func (s rngSrc) Int63() int64   { return int64(s.r.U64() >> 1) }
func (s rngSrc) Seed(int64)     {}
func (s rngSrc) Uint64() uint64 { return s.r.U64() }

func rngSource(r *rng.R) *rand.Rand { return rand.New(rngSrc{r}) }

const relFlags = apd.Inexact | apd.Subnormal | apd.Underflow | apd.Overflow

// callMode runs op under context c with mode m. aux is the target exponent
// for quantize.
func callMode(op string, c dec.Ctx, m string, x, y dec.D, aux int64) Outcome {
	c.Mode = m
	if op == "quantize" {
		return CallQuantize(br.Context(c, 0), x, aux)
	}
	return CallArith(op, br.Context(c, 0), x, y)
}

func sysErr(o Outcome) bool {
	return isSystemOutcome(o)
}

// numLE reports a <= b numerically for non-NaN values (zeros equal).
func numLE(a, b dec.D) bool { return dec.Cmp(a, b) <= 0 }

func absD(a dec.D) dec.D {
	r := a
	r.Neg = false
	return r
}

// sameNum reports numeric equality; zeroSign selects whether the sign of a
// zero matters.
func sameNum(a, b dec.D, zeroSign bool) bool {
	if a.IsNaN() || b.IsNaN() {
		return a.IsNaN() && b.IsNaN()
	}
	if dec.Cmp(a, b) != 0 {
		return false
	}
	if zeroSign && a.IsZero() && b.IsZero() {
		return a.Neg == b.Neg
	}
	return true
}

// nextUp returns the next representable value above v on the grid of context
// c (p digits, Etiny) for finite v, or on the fixed quantum 10^fixedQ when
// useFixed is set. ok=false if it cannot be computed (v at the top).
func nextUp(c dec.Ctx, v dec.D, useFixed bool, fixedQ int64) (dec.D, bool) {
	if v.Form != dec.Finite {
		return v, false
	}
	if useFixed {
		e := dec.AddExact(v, dec.D{Form: dec.Finite, C: big.NewInt(1), E: fixedQ}, false)
		return dec.D{Form: dec.Finite, Neg: e.Neg, C: e.Num, E: e.E}, true
	}
	et := c.Etiny()
	if v.IsZero() {
		return dec.D{Form: dec.Finite, C: big.NewInt(1), E: et}, true
	}
	adj := v.Adj()
	q := adj - c.P + 1
	if q < et {
		q = et
	}
	if v.Neg {
		// moving towards zero: if |v| is exactly 10^adj the spacing below it is finer
		if v.C.Cmp(dec.Pow10(v.Digits()-1)) == 0 && q > et {
			q--
		}
	}
	e := dec.AddExact(v, dec.D{Form: dec.Finite, C: big.NewInt(1), E: q}, false)
	return dec.D{Form: dec.Finite, Neg: e.Neg, C: e.Num, E: e.E}, true
}

func largestFinite(c dec.Ctx, neg bool) dec.D {
	co := new(big.Int).Sub(dec.Pow10(c.P), big.NewInt(1))
	return dec.D{Form: dec.Finite, Neg: neg, C: co, E: c.Emax - c.P + 1}
}

func relDetail(op string, c dec.Ctx, x, y dec.D, aux int64, why string, rs map[string]Outcome) map[string]interface{} {
	m := map[string]interface{}{"op": op, "ctx": c.String(), "x": x.FullString(), "why": why}
	if y.C != nil {
		m["y"] = y.FullString()
	}
	if op == "quantize" {
		m["target_exponent"] = aux
	}
	res := map[string]string{}
	for k, o := range rs {
		res[k] = o.Res.FullString() + " [" + br.FlagNames(o.Flags) + "]"
	}
	m["results"] = res
	return m
}

// modesCase evaluates one operand set under the eight modes and checks the
// bracketing relations.
func modesCase(t *mon.T, op string, c dec.Ctx, x, y dec.D, aux int64) {
	rs := map[string]Outcome{}
	for _, m := range dec.Modes {
		o := callMode(op, c, m, x, y, aux)
		t.Eval()
		if sysErr(o) {
			t.Skip("system-limit")
			return
		}
		if o.Err != nil {
			t.Skip("error:" + op)
			return
		}
		if o.Res.IsNaN() {
			t.Skip("nan-result")
			return
		}
		rs[m] = o
	}
	fail := func(why string) {
		t.Fail("modes-inconsistent", relDetail(op, c, x, y, aux, why, rs))
	}
	t.Count("modes/" + op)
	fl, ce, dn, up := rs["floor"].Res, rs["ceiling"].Res, rs["down"].Res, rs["up"].Res
	anyInexact, allInexact := false, true
	for _, m := range dec.Modes {
		r := rs[m].Res
		if !numLE(fl, r) || !numLE(r, ce) {
			fail(fmt.Sprintf("mode %s result outside [floor, ceiling]", m))
			return
		}
		if dec.Cmp(absD(dn), absD(r)) > 0 || dec.Cmp(absD(r), absD(up)) > 0 {
			fail(fmt.Sprintf("mode %s magnitude outside [|down|, |up|]", m))
			return
		}
		if rs[m].Flags&apd.Inexact != 0 {
			anyInexact = true
		} else {
			allInexact = false
		}
	}
	for _, m := range []string{"half_up", "half_even", "half_down"} {
		r := rs[m].Res
		if !sameNum(r, dn, false) && !sameNum(r, up, false) {
			fail(fmt.Sprintf("mode %s returns neither the down nor the up result", m))
			return
		}
	}
	if !allInexact {
		// some mode says the result is exact: then every mode must return it
		for _, m := range dec.Modes {
			if !sameNum(rs[m].Res, dn, false) {
				fail(fmt.Sprintf("Inexact not raised under every mode, yet mode %s differs from down", m))
				return
			}
		}
		t.Count("modes-exact")
	}
	overflow := false
	for _, m := range dec.Modes {
		if rs[m].Flags&apd.Overflow != 0 {
			overflow = true
		}
	}
	if allInexact && !overflow {
		if sameNum(dn, up, false) {
			fail("Inexact raised without overflow but down == up")
			return
		}
		t.Count("modes-inexact")
		t.Nontrivial(fmt.Sprintf("%s|%s|%s|%s|%d", op, c, x.FullString(), y.FullString(), aux))
	} else if anyInexact {
		t.Count("modes-overflow-or-mixed")
	}
	// floor and ceiling equal or adjacent. (RoundToIntegralExact has no digit
	// limit, so its grid has no largest finite value; integers whose adjusted
	// exponent exceeds MaxExponent are outside C09's domain.)
	if op == "rtie" && overflow {
		t.Skip("rtie-integer-above-emax")
	} else if !sameNum(fl, ce, false) {
		useFixed, q := false, int64(0)
		if op == "quantize" {
			useFixed, q = true, aux
		} else if op == "rtie" {
			useFixed, q = true, 0
		}
		adjacent := false
		if fl.Form == dec.Finite && ce.Form == dec.Finite {
			if nx, ok := nextUp(c, fl, useFixed, q); ok && dec.Cmp(nx, ce) == 0 {
				adjacent = true
			}
		} else if fl.Form == dec.Finite && ce.Form == dec.Inf && !ce.Neg {
			adjacent = dec.Cmp(fl, largestFinite(c, false)) == 0
		} else if fl.Form == dec.Inf && fl.Neg && ce.Form == dec.Finite {
			adjacent = dec.Cmp(ce, largestFinite(c, true)) == 0
		}
		if !adjacent {
			fail("floor and ceiling results are neither equal nor adjacent representable values")
			return
		}
		t.Count("adjacent-checked")
	}
	if t.WantSample() {
		t.Sample(relDetail(op, c, x, y, aux, "sample", rs))
	}
}

func eqOutcome(a, b Outcome, zeroSign bool) bool {
	return sameNum(a.Res, b.Res, zeroSign) && a.Flags&relFlags == b.Flags&relFlags
}

func mirrorMode(m string) string {
	switch m {
	case "floor":
		return "ceiling"
	case "ceiling":
		return "floor"
	}
	return m
}

// relationsCase checks commutativity, Sub = Add(-y), mirroring and scaling.
func relationsCase(t *mon.T, c dec.Ctx) {
	r := t.Rng
	m := dec.Modes[r.Intn(8)]
	c.Mode = m
	two := func(a, b Outcome) bool { return sysErr(a) || sysErr(b) || a.Err != nil || b.Err != nil }
	report := func(kind, op string, x, y dec.D, a, b Outcome, why string) {
		t.Fail(kind, relDetail(op, c, x, y, 0, why, map[string]Outcome{"first": a, "second": b}))
	}
	switch r.Intn(5) {
	case 0: // commutativity
		op := []string{"add", "mul"}[r.Intn(2)]
		x, y := gen.Pair(r, c, op)
		a, b := callMode(op, c, m, x, y, 0), callMode(op, c, m, y, x, 0)
		t.EvalN(2)
		if two(a, b) {
			t.Skip("system-limit")
			return
		}
		t.Count("rel/commute-" + op)
		if !eqOutcome(a, b, true) {
			report("not-commutative", op, x, y, a, b, op+"(x,y) != "+op+"(y,x)")
		}
	case 1: // Sub(x,y) == Add(x,-y)
		x, y := gen.Pair(r, c, "sub")
		a, b := callMode("sub", c, m, x, y, 0), callMode("add", c, m, x, y.Negate(), 0)
		t.EvalN(2)
		if two(a, b) {
			t.Skip("system-limit")
			return
		}
		t.Count("rel/sub-add")
		if !eqOutcome(a, b, true) {
			report("sub-differs-from-add-neg", "sub", x, y, a, b, "Sub(x,y) != Add(x,-y)")
		}
	case 2: // mirror
		op := []string{"add", "sub", "round", "quantize", "rtie", "mul", "quo"}[r.Intn(7)]
		var x, y dec.D
		var aux int64
		switch op {
		case "mul", "quo":
			x, y = gen.Pair(r, c, op)
			if op == "quo" && y.IsZero() {
				t.Skip("division-by-zero")
				return
			}
		case "add", "sub":
			x, y = gen.Pair(r, c, op)
		case "round":
			x = gen.Finite(r, c)
		case "quantize":
			x, aux = quantizeOperand(r, c)
		case "rtie":
			x = integralOperand(r, c)
		}
		ny := y
		if y.C != nil && op != "mul" && op != "quo" {
			ny = y.Negate() // for mul/quo negating one operand negates the exact result
		}
		a, b := callMode(op, c, m, x, y, aux), callMode(op, c, mirrorMode(m), x.Negate(), ny, aux)
		t.EvalN(2)
		if two(a, b) {
			t.Skip("system-limit")
			return
		}
		if a.Res.IsNaN() || b.Res.IsNaN() {
			if a.Res.IsNaN() != b.Res.IsNaN() {
				report("mirror-broken", op, x, y, a, b, "NaN on one side only")
			}
			t.Skip("nan-result")
			return
		}
		t.Count("rel/mirror-" + op)
		nb := b
		nb.Res = b.Res.Negate()
		// exact-zero results are compared without sign
		zs := !(a.Res.IsZero() && a.Flags&apd.Inexact == 0)
		if !eqOutcome(a, nb, zs) {
			report("mirror-broken", op, x, y, a, b, "op(-x,-y) under the mirrored mode != -op(x,y)")
		}
	case 3: // Round monotone along a sorted chain of values sharing their leading digits
		head, _ := new(big.Int).SetString(gen.Digits(r, c.P), 10)
		neg := r.Bool()
		// position of the head's last digit: the members' tails hang below it
		base := gen.TargetAdj(r, c) - c.P + 1
		if base < gen.MinExp+2000 || base > gen.MaxExp-2000 {
			base = 0
		}
		const chain = 6
		sharedPrefix := int64(0)
		if r.Chance(1, 3) {
			sharedPrefix = int64(1 + r.Intn(int(c.P)))
		}
		sameLen := r.Chance(1, 2)
		L0 := int64(1 + r.Intn(40))
		if r.Chance(1, 4) {
			L0 = int64(41 + r.Intn(360))
		}
		members := make([]dec.D, 0, chain)
		for i := 0; i < chain; i++ {
			// tail lengths differ between members unless sameLen: short tails and
			// tails of more than 128 digits (powers of ten beyond the lookup
			// table) must round consistently with each other
			L := L0
			if !sameLen {
				L = int64(1 + r.Intn(40))
				if r.Chance(1, 3) {
					L = int64(129 + r.Intn(300))
				}
			}
			tail, _ := new(big.Int).SetString(gen.Digits(r, L), 10)
			if r.Chance(1, 3) {
				tail = new(big.Int).Rand(rngSource(r), dec.Pow10(L))
			}
			h := head
			if r.Chance(1, 5) {
				h = new(big.Int).Add(head, big.NewInt(1))
			}
			v := new(big.Int).Add(new(big.Int).Mul(h, dec.Pow10(L)), tail)
			if sharedPrefix > 0 {
				total := c.P + L
				low := new(big.Int).Rand(rngSource(r), dec.Pow10(total-sharedPrefix))
				v.Sub(v, new(big.Int).Mod(v, dec.Pow10(total-sharedPrefix)))
				v.Add(v, low)
			}
			members = append(members, dec.D{Form: dec.Finite, Neg: neg, C: v, E: base - L})
		}
		sort.Slice(members, func(i, j int) bool { return dec.Cmp(members[i], members[j]) < 0 })
		var prev Outcome
		var prevX dec.D
		for i, x := range members {
			o := callMode("round", c, m, x, dec.D{}, 0)
			t.Eval()
			if sysErr(o) || o.Err != nil {
				t.Skip("system-limit")
				return
			}
			if i > 0 {
				cx := dec.Cmp(prevX, x)
				cr := dec.Cmp(prev.Res, o.Res)
				if (cx < 0 && cr > 0) || (cx > 0 && cr < 0) || (cx == 0 && cr != 0) {
					report("round-not-monotone", "round", prevX, x, prev, o, "x <= y but Round(x) > Round(y)")
					return
				}
			}
			prev, prevX = o, x
		}
		t.Count("rel/monotone")
	case 4: // scaling by a power of ten
		op := []string{"add", "sub", "rem", "mul", "quo"}[r.Intn(5)]
		x, y := gen.Pair(r, c, op)
		if op == "rem" {
			x, y = remPair(r, c)
		}
		k := r.Range(-6, 6)
		sx, sy := x.Clone(), y.Clone()
		resShift := k
		switch op {
		case "add", "sub", "rem":
			sx.E += k
			sy.E += k
		case "mul":
			if r.Bool() {
				sx.E += k
			} else {
				sy.E += k
			}
		case "quo":
			if r.Bool() {
				sx.E += k
			} else {
				sy.E += k
				resShift = -k
			}
		}
		a, b := callMode(op, c, m, x, y, 0), callMode(op, c, m, sx, sy, 0)
		t.EvalN(2)
		if two(a, b) || a.Res.Form != dec.Finite || b.Res.Form != dec.Finite {
			t.Skip("system-limit-or-nonfinite")
			return
		}
		normal := func(o Outcome) bool {
			if o.Flags&(apd.Subnormal|apd.Overflow|apd.Underflow) != 0 {
				return false
			}
			if o.Res.IsZero() {
				return true
			}
			ad := o.Res.Adj()
			return ad >= c.Emin && ad <= c.Emax
		}
		// exact results must also be normal: judge by both computed results and
		// by the shifted first result
		shifted := a.Res.Clone()
		shifted.E += resShift
		if !normal(a) || !normal(b) || (!shifted.IsZero() && (shifted.Adj() < c.Emin || shifted.Adj() > c.Emax)) {
			t.Skip("not-in-normal-range")
			return
		}
		// the operands themselves must stay in the normal range for the
		// relation to be about the same computation
		t.Count("rel/scale-" + op)
		if !sameNum(shifted, b.Res, true) || a.Flags&apd.Inexact != b.Flags&apd.Inexact {
			report("scaling-broken", op, x, y, a, b, fmt.Sprintf("scaling operands by 10^%d does not scale the result by 10^%d", k, resShift))
		}
	}
}

func runC20(r *mon.Run) {
	r.Rule = "cases: one (op, operands, Precision, MinExponent, MaxExponent) evaluated under all eight rounding modes (Add, Sub, Mul, Quo, Round, " +
		"Quantize, RoundToIntegralExact; C01/C09 generators so ties, sticky remainders, subnormal and negative regions are covered) and " +
		"checked for bracketing, half-mode membership, exactness agreement and floor/ceiling adjacency; plus relation cases: commutativity, " +
		"Sub = Add of the negation, mirroring under the mirrored mode, monotonicity of Round on perturbed pairs, scaling by 10^k inside " +
		"the normal range. No external oracle: apd is compared with apd. distinct_nontrivial = distinct operand sets for which Inexact " +
		"was raised under every mode without overflow."
	r.Assumptions = []string{"relations are exactly those listed in the property; adjacency uses a big.Int next-representable-value function on the context's grid"}
	r.Parallel("modes", r.N(90000, 8000000), func(t *mon.T) {
		c := gen.Context(t.Rng)
		switch t.Rng.Pick(14, 14, 14, 18, 12, 16, 12) {
		case 0:
			x, y := gen.Pair(t.Rng, c, "add")
			modesCase(t, "add", c, x, y, 0)
		case 1:
			x, y := gen.Pair(t.Rng, c, "sub")
			modesCase(t, "sub", c, x, y, 0)
		case 2:
			x, y := gen.Pair(t.Rng, c, "mul")
			modesCase(t, "mul", c, x, y, 0)
		case 3:
			x, y := gen.Pair(t.Rng, c, "quo")
			if y.IsZero() {
				t.Skip("division-by-zero")
				return
			}
			modesCase(t, "quo", c, x, y, 0)
		case 4:
			modesCase(t, "round", c, gen.Finite(t.Rng, c), dec.D{}, 0)
		case 5:
			x, e := quantizeOperand(t.Rng, c)
			modesCase(t, "quantize", c, x, dec.D{}, e)
		case 6:
			modesCase(t, "rtie", c, integralOperand(t.Rng, c), dec.D{}, 0)
		}
	})
	r.Parallel("kept-boundary", r.N(15000, 1000000), func(t *mon.T) {
		c, x, j := gen.KeptBoundary(t.Rng)
		switch t.Rng.Intn(3) {
		case 0:
			modesCase(t, "round", c, x, dec.D{}, 0)
		case 1:
			modesCase(t, "quantize", c, x, dec.D{}, x.E+j)
		default:
			x.E = -j
			modesCase(t, "rtie", c, x, dec.D{}, 0)
		}
		t.Count("kept-boundary")
	})
	r.Parallel("relations", r.N(250000, 20000000), func(t *mon.T) { relationsCase(t, gen.Context(t.Rng)) })
	// The exported Rounder.Round, called with a rounder other than the
	// context's own: it must round the way Context.Round does on a context
	// whose Rounding is that rounder (same value, same conditions, the
	// context's own exponent limits). Results below the normal range are left
	// out: there the unchanged library lets the context's mode decide.
	r.Parallel("rounder-receiver", r.N(40000, 3000000), func(t *mon.T) {
		rr := t.Rng
		c := gen.Context(rr)
		x := gen.Finite(rr, c)
		if x.IsZero() || x.Adj() < c.Emin {
			t.Skip("zero-or-subnormal-operand")
			return
		}
		m2 := dec.Modes[rr.Intn(8)]
		if m2 == c.Mode {
			m2 = dec.Modes[(rr.Intn(7)+1+indexOf(dec.Modes, c.Mode))%8]
		}
		c2 := c
		c2.Mode = m2
		var d1, d2 apd.Decimal
		res1 := apd.Rounder(m2).Round(br.Context(c, 0), &d1, br.ToApd(x), true)
		res2, err2 := br.Context(c2, 0).Round(&d2, br.ToApd(x))
		t.EvalN(2)
		t.Count("rounder-receiver")
		if err2 != nil {
			t.Skip("context-round-error")
			return
		}
		g1, g2 := br.FromApd(&d1), br.FromApd(&d2)
		if meaningful(g1) != meaningful(g2) || res1 != res2 {
			t.Fail("modes-inconsistent", map[string]interface{}{"op": "Rounder.Round", "ctx": c.String(), "receiver": m2, "x": x.String(),
				"got": meaningful(g1) + " [" + br.FlagNames(res1) + "]", "context_round_with_that_mode": meaningful(g2) + " [" + br.FlagNames(res2) + "]"})
		}
		if res1&apd.Inexact != 0 {
			t.Nontrivial(fmt.Sprintf("rr|%s|%s|%s", c, m2, x.FullString()))
		}
	})
	r.Require("rounder-receiver", 20000)
	r.Serial("pinned", func(t *mon.T) {
		c := dec.Ctx{P: 3, Emin: -9, Emax: 9}
		x, _ := dec.Parse("-15E-12")
		modesCase(t, "add", c, x, dec.Zero(false, 0), 0)
		modesCase(t, "round", c, x, dec.D{}, 0)
		x2, _ := dec.Parse("1E-3")
		modesCase(t, "quantize", c, x2, dec.D{}, 0)
		modesCase(t, "rtie", c, x2.Negate(), dec.D{}, 0)
		x3, _ := dec.Parse("10000001E-18")
		modesCase(t, "quo", c, x3, dec.FromInt(2, 0), 0)
		t.Count("pinned")
	})
	if !r.Quick() {
		vs := gridValues()
		n := int64(len(vs))
		r.Parallel("grid", n*n, func(t *mon.T) {
			x, y := vs[t.Index/n], vs[t.Index%n]
			for _, c := range gridContexts {
				for _, op := range arithOps {
					if op == "quo" && y.IsZero() {
						continue
					}
					modesCase(t, op, c, x, y, 0)
				}
			}
		})
	}
	for _, cl := range []string{"modes/add", "modes/sub", "modes/mul", "modes/quo", "modes/round", "modes/quantize", "modes/rtie", "modes-inexact",
		"modes-exact", "adjacent-checked", "rel/commute-add", "rel/commute-mul", "rel/sub-add", "rel/monotone", "rel/mirror-add", "rel/mirror-quantize",
		"rel/scale-add", "rel/scale-mul", "rel/scale-quo", "rel/scale-rem"} {
		r.Require(cl, 200)
	}
}
