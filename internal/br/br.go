// Package br bridges the reference model (package dec) and apd values. It
// reads apd values through their exported fields only.
package br

import (
	"fmt"
	"math/big"

	"github.com/cockroachdb/apd/v3"

	"verif/internal/dec"
)

// ToApd builds a fresh apd.Decimal from a model value.
func ToApd(d dec.D) *apd.Decimal {
	r := new(apd.Decimal)
	SetApd(r, d)
	return r
}

// SetApd overwrites r with d (all fields).
func SetApd(r *apd.Decimal, d dec.D) {
	r.Form = apd.Form(d.Form)
	r.Negative = d.Neg
	r.Exponent = int32(d.E)
	if d.C == nil {
		r.Coeff.SetInt64(0)
	} else {
		r.Coeff.SetMathBigInt(d.C)
	}
	// One value in four (chosen by a hash of the value, so that a replayed
	// case gets the same representation) arrives the way values arrive in a
	// long-running program: through in-place arithmetic that went beyond 128
	// bits and came back. Such a coefficient is heap-backed although it is
	// small - including the heap-backed zero that no constructor produces.
	if d.C != nil && d.C.BitLen() <= 128 && heapHistory(d) {
		// start from a different small value so that the inline words left
		// behind are stale and non-zero, go beyond 128 bits, come back
		// (the stale value varies: 1, 0, 10, a two-word value, ...: code that
		// forgets to ask where the value lives reads it instead of the real one)
		stale := []int64{0x1234567, 1, 10, 0, 2, 999999999999999999, 1 << 62}[uint64(d.E*7+int64(d.C.BitLen()))%7]
		r.Coeff.SetInt64(stale)
		r.Coeff.Add(&r.Coeff, bigBump)
		var delta apd.BigInt
		delta.SetMathBigInt(new(big.Int).Sub(d.C, big.NewInt(stale)))
		r.Coeff.Add(&r.Coeff, &delta)
		r.Coeff.Sub(&r.Coeff, bigBump)
	}
}

var bigBump = new(apd.BigInt).SetMathBigInt(new(big.Int).Lsh(big.NewInt(1), 200))

func heapHistory(d dec.D) bool {
	h := uint64(d.E)*0x9e3779b97f4a7c15 ^ uint64(d.Form)<<7
	if d.Neg {
		h ^= 0x5555
	}
	if d.C.Sign() != 0 {
		h ^= uint64(d.C.Bits()[0]) * 0xbf58476d1ce4e5b9
	}
	h ^= h >> 29
	return h%4 == 0
}

// FromApd converts an apd.Decimal to the model. The coefficient is read as it
// is (it may be negative if apd produced an ill-formed value; callers check).
func FromApd(a *apd.Decimal) dec.D {
	return dec.D{Form: dec.Form(a.Form), Neg: a.Negative, C: a.Coeff.MathBigInt(), E: int64(a.Exponent)}
}

// CoeffText returns the coefficient through the text path, independent of
// MathBigInt (used by a few cross-checks).
func CoeffText(a *apd.Decimal) *big.Int {
	b, _ := new(big.Int).SetString(a.Coeff.String(), 10)
	return b
}

// Rounder maps the model's mode name to apd's Rounder (identity on names).
func Rounder(mode string) apd.Rounder { return apd.Rounder(mode) }

// Context builds an apd.Context from the model.
func Context(c dec.Ctx, traps apd.Condition) *apd.Context {
	return &apd.Context{
		Precision:   uint32(c.P),
		MaxExponent: int32(c.Emax),
		MinExponent: int32(c.Emin),
		Rounding:    apd.Rounder(c.Mode),
		Traps:       traps,
	}
}

// AllFlags is the union of the twelve documented conditions.
const AllFlags = apd.SystemOverflow | apd.SystemUnderflow | apd.Overflow | apd.Underflow | apd.Inexact |
	apd.Subnormal | apd.Rounded | apd.DivisionUndefined | apd.DivisionByZero | apd.DivisionImpossible |
	apd.InvalidOperation | apd.Clamped

// FlagNames renders a condition without going through apd's String (which
// panics on unknown bits).
func FlagNames(c apd.Condition) string {
	names := []struct {
		f apd.Condition
		n string
	}{
		{apd.SystemOverflow, "SystemOverflow"}, {apd.SystemUnderflow, "SystemUnderflow"}, {apd.Overflow, "Overflow"},
		{apd.Underflow, "Underflow"}, {apd.Inexact, "Inexact"}, {apd.Subnormal, "Subnormal"}, {apd.Rounded, "Rounded"},
		{apd.DivisionUndefined, "DivisionUndefined"}, {apd.DivisionByZero, "DivisionByZero"},
		{apd.DivisionImpossible, "DivisionImpossible"}, {apd.InvalidOperation, "InvalidOperation"}, {apd.Clamped, "Clamped"},
	}
	s := ""
	for _, e := range names {
		if c&e.f != 0 {
			if s != "" {
				s += "|"
			}
			s += e.n
			c &^= e.f
		}
	}
	if c != 0 {
		if s != "" {
			s += "|"
		}
		s += fmt.Sprintf("UNKNOWN(0x%x)", uint32(c))
	}
	if s == "" {
		return "0"
	}
	return s
}

// WellFormed checks the structural invariant of a Decimal (C04/C07): valid
// form, non-negative coefficient.
func WellFormed(a *apd.Decimal) error {
	if a.Form < apd.Finite || a.Form > apd.NaN {
		return fmt.Errorf("invalid Form %d", a.Form)
	}
	if a.Coeff.Sign() < 0 {
		return fmt.Errorf("negative coefficient %s", a.Coeff.String())
	}
	return nil
}
