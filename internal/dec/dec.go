// Package dec is the reference value model used by the monitors. It does not
// import apd. A finite decimal is (Neg, C >= 0, E) with value (-1)^Neg*C*10^E.
package dec

import (
	"fmt"
	"math/big"
	"strings"
	"sync"
)

type Form int8

// Same numbering as apd.Form.
const (
	Finite Form = iota
	Inf
	SNaN
	NaN
)

func (f Form) String() string {
	switch f {
	case Finite:
		return "Finite"
	case Inf:
		return "Infinite"
	case SNaN:
		return "sNaN"
	case NaN:
		return "NaN"
	}
	return fmt.Sprintf("Form(%d)", int8(f))
}

// D is a decimal value.
type D struct {
	Form Form
	Neg  bool
	C    *big.Int
	E    int64
}

var (
	bigZero = big.NewInt(0)
	bigOne  = big.NewInt(1)
	bigTwo  = big.NewInt(2)
	bigFive = big.NewInt(5)
	bigTen  = big.NewInt(10)
)

// pow10 cache.
var (
	p10mu  sync.RWMutex
	p10tab []*big.Int
)

const p10cacheMax = 6000

// Pow10 returns 10^n (n >= 0). The result must not be modified.
func Pow10(n int64) *big.Int {
	if n < 0 {
		panic("Pow10: negative")
	}
	if n < p10cacheMax {
		p10mu.RLock()
		if int(n) < len(p10tab) {
			v := p10tab[n]
			p10mu.RUnlock()
			return v
		}
		p10mu.RUnlock()
		p10mu.Lock()
		for int64(len(p10tab)) <= n {
			if len(p10tab) == 0 {
				p10tab = append(p10tab, big.NewInt(1))
			} else {
				p10tab = append(p10tab, new(big.Int).Mul(p10tab[len(p10tab)-1], bigTen))
			}
		}
		v := p10tab[n]
		p10mu.Unlock()
		return v
	}
	return new(big.Int).Exp(bigTen, big.NewInt(n), nil)
}

// NumDigits returns the number of decimal digits of |x| (1 for zero).
func NumDigits(x *big.Int) int64 {
	if x.Sign() == 0 {
		return 1
	}
	bl := x.BitLen()
	if bl <= 63 {
		v := new(big.Int).Abs(x).Uint64()
		n := int64(0)
		for v > 0 {
			v /= 10
			n++
		}
		return n
	}
	// floor((bl-1)*log10(2)) <= digits-1 <= floor(bl*log10(2))
	n := int64(float64(bl-1)*0.30102999566398114) + 1 // candidate digit count (may be one low)
	if n < 1 {
		n = 1
	}
	ax := x
	if x.Sign() < 0 {
		ax = new(big.Int).Abs(x)
	}
	for ax.Cmp(Pow10(n)) >= 0 {
		n++
	}
	for n > 1 && ax.Cmp(Pow10(n-1)) < 0 {
		n--
	}
	return n
}

func Zero(neg bool, e int64) D { return D{Form: Finite, Neg: neg, C: new(big.Int), E: e} }

func New(neg bool, c *big.Int, e int64) D { return D{Form: Finite, Neg: neg, C: c, E: e} }

func FromInt(v int64, e int64) D {
	c := big.NewInt(v)
	neg := v < 0
	c.Abs(c)
	return D{Form: Finite, Neg: neg, C: c, E: e}
}

func Special(f Form, neg bool) D { return D{Form: f, Neg: neg, C: new(big.Int)} }

func (d D) IsZero() bool   { return d.Form == Finite && d.C.Sign() == 0 }
func (d D) IsNaN() bool    { return d.Form == NaN || d.Form == SNaN }
func (d D) IsFinite() bool { return d.Form == Finite }
func (d D) Digits() int64  { return NumDigits(d.C) }

// Adj returns the adjusted exponent E + digits - 1.
func (d D) Adj() int64 { return d.E + d.Digits() - 1 }

// Sign returns -1, 0, +1 (zero only for finite zeros).
func (d D) Sign() int {
	if d.Form == Finite && d.C.Sign() == 0 {
		return 0
	}
	if d.Neg {
		return -1
	}
	return 1
}

func (d D) Clone() D {
	c := new(big.Int)
	if d.C != nil {
		c.Set(d.C)
	}
	return D{Form: d.Form, Neg: d.Neg, C: c, E: d.E}
}

func (d D) Negate() D {
	r := d.Clone()
	r.Neg = !r.Neg
	return r
}

// String renders as [-]coeffE[+-]exp or special names; used for fingerprints
// and reports (not the GDA string).
func (d D) String() string {
	s := ""
	if d.Neg {
		s = "-"
	}
	switch d.Form {
	case Inf:
		return s + "Inf"
	case NaN:
		return s + "NaN"
	case SNaN:
		return s + "sNaN"
	case Finite:
		cs := d.C.String()
		if len(cs) > 60 {
			cs = fmt.Sprintf("%s..(%d digits)..%s", cs[:20], len(cs), cs[len(cs)-20:])
		}
		return fmt.Sprintf("%s%sE%d", s, cs, d.E)
	}
	return fmt.Sprintf("%sForm(%d)", s, d.Form)
}

// FullString is like String but never abbreviates the coefficient.
func (d D) FullString() string {
	s := ""
	if d.Neg {
		s = "-"
	}
	switch d.Form {
	case Inf:
		return s + "Inf"
	case NaN:
		return s + "NaN"
	case SNaN:
		return s + "sNaN"
	}
	return fmt.Sprintf("%s%sE%d", s, d.C.String(), d.E)
}

// Parse parses the FullString format (used by replay files).
func Parse(s string) (D, error) {
	neg := false
	if strings.HasPrefix(s, "-") {
		neg = true
		s = s[1:]
	}
	switch s {
	case "Inf":
		return Special(Inf, neg), nil
	case "NaN":
		return Special(NaN, neg), nil
	case "sNaN":
		return Special(SNaN, neg), nil
	}
	i := strings.IndexByte(s, 'E')
	if i < 0 {
		return D{}, fmt.Errorf("bad decimal %q", s)
	}
	c, ok := new(big.Int).SetString(s[:i], 10)
	if !ok {
		return D{}, fmt.Errorf("bad coefficient %q", s)
	}
	var e int64
	if _, err := fmt.Sscanf(s[i+1:], "%d", &e); err != nil {
		return D{}, err
	}
	return D{Form: Finite, Neg: neg, C: c, E: e}, nil
}

// CmpAbs compares |a| and |b| for finite a, b exactly.
func CmpAbs(a, b D) int {
	az, bz := a.C.Sign() == 0, b.C.Sign() == 0
	switch {
	case az && bz:
		return 0
	case az:
		return -1
	case bz:
		return 1
	}
	aa, ba := a.Adj(), b.Adj()
	if aa != ba {
		if aa < ba {
			return -1
		}
		return 1
	}
	// Same adjusted exponent: the exponent difference is bounded by the digit
	// counts, so scaling is cheap.
	if a.E == b.E {
		return a.C.Cmp(b.C)
	}
	if a.E > b.E {
		t := new(big.Int).Mul(a.C, Pow10(a.E-b.E))
		return t.Cmp(b.C)
	}
	t := new(big.Int).Mul(b.C, Pow10(b.E-a.E))
	return a.C.Cmp(t)
}

// Cmp compares two non-NaN values numerically (zeros equal, infinities extreme).
func Cmp(a, b D) int {
	as, bs := a.Sign(), b.Sign()
	if as != bs {
		if as < bs {
			return -1
		}
		return 1
	}
	if as == 0 {
		return 0
	}
	var c int
	switch {
	case a.Form == Inf && b.Form == Inf:
		c = 0
	case a.Form == Inf:
		c = 1
	case b.Form == Inf:
		c = -1
	default:
		c = CmpAbs(a, b)
	}
	if as < 0 {
		c = -c
	}
	return c
}

// SameValue reports numeric equality including the sign of zero and the sign
// of infinity; NaNs are equal when their form (quiet/signaling) is equal.
func SameValue(a, b D) bool {
	if a.Form != b.Form {
		return false
	}
	switch a.Form {
	case NaN, SNaN:
		return true
	case Inf:
		return a.Neg == b.Neg
	}
	if a.Neg != b.Neg {
		return false
	}
	return CmpAbs(a, b) == 0
}

// SameRepr reports field-wise identity.
func SameRepr(a, b D) bool {
	if a.Form != b.Form || a.Neg != b.Neg {
		return false
	}
	if a.Form != Finite {
		return true
	}
	return a.E == b.E && a.C.Cmp(b.C) == 0
}

// Exact is an exact rational value (-1)^Neg * Num/Den * 10^E with Den > 0,
// Num >= 0.
type Exact struct {
	Neg bool
	Num *big.Int
	Den *big.Int
	E   int64
}

func (x Exact) IsZero() bool { return x.Num.Sign() == 0 }

func (x Exact) String() string {
	s := ""
	if x.Neg {
		s = "-"
	}
	return fmt.Sprintf("%s%s/%sE%d", s, abbrev(x.Num), abbrev(x.Den), x.E)
}

func abbrev(b *big.Int) string {
	s := b.String()
	if len(s) > 50 {
		return fmt.Sprintf("%s..(%d)..%s", s[:15], len(s), s[len(s)-15:])
	}
	return s
}

func ExactOf(d D) Exact { return Exact{Neg: d.Neg, Num: d.C, Den: bigOne, E: d.E} }

// AddExact returns a+b (sub negates b first) for finite a, b.
func AddExact(a, b D, sub bool) Exact {
	bn := b.Neg != sub
	e := a.E
	if b.E < e {
		e = b.E
	}
	ac := new(big.Int).Mul(a.C, Pow10(a.E-e))
	bc := new(big.Int).Mul(b.C, Pow10(b.E-e))
	if a.Neg {
		ac.Neg(ac)
	}
	if bn {
		bc.Neg(bc)
	}
	ac.Add(ac, bc)
	neg := ac.Sign() < 0
	ac.Abs(ac)
	return Exact{Neg: neg, Num: ac, Den: bigOne, E: e}
}

func MulExact(a, b D) Exact {
	return Exact{Neg: a.Neg != b.Neg, Num: new(big.Int).Mul(a.C, b.C), Den: bigOne, E: a.E + b.E}
}

// QuoExact returns a/b for finite a and non-zero finite b.
func QuoExact(a, b D) Exact {
	return Exact{Neg: a.Neg != b.Neg, Num: a.C, Den: b.C, E: a.E - b.E}
}

// AdjExact returns floor(log10(|x|)) for non-zero x.
func AdjExact(x Exact) int64 {
	dn, dd := NumDigits(x.Num), NumDigits(x.Den)
	k := dn - dd // Num/Den in (10^(k-1), 10^(k+1))
	// Compare Num with Den*10^k (or Num*10^-k with Den).
	var c int
	if k >= 0 {
		c = x.Num.Cmp(new(big.Int).Mul(x.Den, Pow10(k)))
	} else {
		c = new(big.Int).Mul(x.Num, Pow10(-k)).Cmp(x.Den)
	}
	if c < 0 {
		k--
	}
	return k + x.E
}

// Ctx is the model of a context.
type Ctx struct {
	P    int64
	Emin int64
	Emax int64
	Mode string
}

func (c Ctx) Etiny() int64 { return c.Emin - c.P + 1 }

func (c Ctx) String() string {
	return fmt.Sprintf("p=%d Emin=%d Emax=%d mode=%q", c.P, c.Emin, c.Emax, c.Mode)
}

// Modes lists the eight named rounding modes.
var Modes = []string{"down", "half_up", "half_even", "ceiling", "floor", "half_down", "up", "05up"}

// Increment is the independent rounding table: should the magnitude i be
// incremented, given the sign of the value, whether the remainder is non-zero
// and how it compares with one half.
func Increment(mode string, i *big.Int, neg bool, remNonZero bool, half int) bool {
	if !remNonZero {
		return false
	}
	switch mode {
	case "down":
		return false
	case "up":
		return true
	case "ceiling":
		return !neg
	case "floor":
		return neg
	case "half_down":
		return half > 0
	case "half_even":
		return half > 0 || (half == 0 && i.Bit(0) == 1)
	case "05up":
		m := new(big.Int).Mod(i, bigTen).Int64()
		return m == 0 || m == 5
	default: // "half_up", "", unknown
		return half >= 0
	}
}

// Rounded is the outcome of rounding an exact value once to a context.
type Rounded struct {
	Res        D    // Finite or Inf
	Inexact    bool // rem != 0 (or overflow)
	Subnormal  bool // exact non-zero value below 10^Emin
	Underflow  bool
	Overflow   bool
	Half       int  // -1, 0, +1: discarded part vs one half (only if Inexact)
	Carry      bool // the increment carried into a new digit
	Discarded  bool // at least one digit position was cut (Rounded in the GDA sense, lower bound)
	ToZero     bool // non-zero exact value rounded to zero
	Quantum    int64
	Class      string
	Unconstrained bool // p == 0 and outside the exponent range: nothing is demanded
}

// divideAtQuantum computes i = floor(|x| / 10^q), whether a remainder exists
// and how it compares with half a quantum. adj is AdjExact(x).
func divideAtQuantum(x Exact, q int64, adj int64) (i *big.Int, remNonZero bool, half int) {
	if adj < q-1 {
		// |x| < 10^(q-1) = 0.1 quantum.
		return new(big.Int), true, -1
	}
	var n, d *big.Int
	if x.E >= q {
		n = new(big.Int).Mul(x.Num, Pow10(x.E-q))
		d = x.Den
	} else {
		n = x.Num
		d = new(big.Int).Mul(x.Den, Pow10(q-x.E))
	}
	i = new(big.Int)
	rem := new(big.Int)
	i.QuoRem(n, d, rem)
	if rem.Sign() == 0 {
		return i, false, -1
	}
	rem.Lsh(rem, 1)
	return i, true, rem.Cmp(d)
}

// RoundOnce rounds the exact non-zero value x once to the context (C01/C02).
// For x == 0 it returns a zero with x's sign; callers apply the operation's
// zero-sign rule.
func RoundOnce(x Exact, c Ctx) Rounded {
	var r Rounded
	if x.IsZero() {
		r.Res = Zero(x.Neg, 0)
		r.Class = "zero"
		return r
	}
	adj := AdjExact(x)
	r.Subnormal = adj < c.Emin
	if c.P == 0 {
		// Rounding disabled: exact result demanded inside the exponent range.
		if x.Den.Cmp(bigOne) != 0 {
			panic("RoundOnce: p=0 with a rational value")
		}
		r.Res = D{Form: Finite, Neg: x.Neg, C: x.Num, E: x.E}
		r.Quantum = x.E
		switch {
		case adj > c.Emax:
			r.Res = Special(Inf, x.Neg)
			r.Overflow, r.Inexact = true, true
			r.Class = "p0-overflow"
		case adj < c.Emin:
			r.Unconstrained = true
			r.Class = "p0-below-emin"
		default:
			r.Class = "p0-exact"
		}
		return r
	}
	q := adj - c.P + 1
	if et := c.Etiny(); q < et {
		q = et
	}
	if x.Den.Cmp(bigOne) == 0 && q < x.E {
		// a terminating value has no digits below its own last one: with an
		// astronomically large Precision there is nothing to pad down to
		q = x.E
	}
	r.Quantum = q
	i, remNZ, half := divideAtQuantum(x, q, adj)
	r.Inexact = remNZ
	r.Half = half
	r.Discarded = remNZ
	if Increment(c.Mode, i, x.Neg, remNZ, half) {
		before := NumDigits(i)
		wasZero := i.Sign() == 0
		i = new(big.Int).Add(i, bigOne)
		if !wasZero && NumDigits(i) > before {
			r.Carry = true
		}
	}
	r.Res = D{Form: Finite, Neg: x.Neg, C: i, E: q}
	if i.Sign() == 0 {
		r.ToZero = true
	} else if r.Res.Adj() > c.Emax {
		r.Res = Special(Inf, x.Neg)
		r.Overflow = true
		r.Inexact = true
	}
	r.Underflow = r.Subnormal && r.Inexact
	// classification for histograms
	switch {
	case r.Overflow:
		r.Class = "overflow"
	case r.Subnormal && r.ToZero:
		r.Class = "subnormal-to-zero"
	case r.Subnormal && r.Inexact:
		r.Class = "subnormal-inexact"
	case r.Subnormal:
		r.Class = "subnormal-exact"
	case !r.Inexact:
		r.Class = "exact"
	case r.Carry:
		r.Class = "carry"
	case half == 0:
		r.Class = "tie"
	case half < 0:
		r.Class = "below-half"
	default:
		r.Class = "above-half"
	}
	return r
}
