// Package rng is a small deterministic PRNG (splitmix64) so that case i of a
// family is the same whatever the worker count or machine load.
package rng

import "math/bits"

type R struct{ s uint64 }

func mix(z uint64) uint64 {
	z += 0x9e3779b97f4a7c15
	z = (z ^ (z >> 30)) * 0xbf58476d1ce4e5b9
	z = (z ^ (z >> 27)) * 0x94d049bb133111eb
	return z ^ (z >> 31)
}

// Hash of a string (FNV-1a) for family names.
func HashString(s string) uint64 {
	h := uint64(14695981039346656037)
	for i := 0; i < len(s); i++ {
		h ^= uint64(s[i])
		h *= 1099511628211
	}
	return h
}

// New returns the generator for case index i of the named family under seed.
func New(seed int64, family string, i int64) *R {
	s := mix(uint64(seed)) ^ mix(HashString(family)+0x1234567) ^ mix(uint64(i)*0x2545F4914F6CDD1D+77)
	return &R{s: mix(s)}
}

func (r *R) U64() uint64 {
	r.s += 0x9e3779b97f4a7c15
	z := r.s
	z = (z ^ (z >> 30)) * 0xbf58476d1ce4e5b9
	z = (z ^ (z >> 27)) * 0x94d049bb133111eb
	return z ^ (z >> 31)
}

// Intn returns a uniform value in [0,n).
func (r *R) Intn(n int) int {
	if n <= 1 {
		return 0
	}
	hi, _ := bits.Mul64(r.U64(), uint64(n))
	return int(hi)
}

// Range returns a uniform value in [lo,hi] inclusive.
func (r *R) Range(lo, hi int64) int64 {
	if hi <= lo {
		return lo
	}
	n := uint64(hi-lo) + 1
	h, _ := bits.Mul64(r.U64(), n)
	return lo + int64(h)
}

func (r *R) Bool() bool { return r.U64()&1 == 1 }

// Chance returns true with probability num/den.
func (r *R) Chance(num, den int) bool { return r.Intn(den) < num }

// Pick returns a random index according to integer weights.
func (r *R) Pick(weights ...int) int {
	t := 0
	for _, w := range weights {
		t += w
	}
	v := r.Intn(t)
	for i, w := range weights {
		if v < w {
			return i
		}
		v -= w
	}
	return len(weights) - 1
}

// Read fills p with random bytes (implements io.Reader, never fails).
func (r *R) Read(p []byte) (int, error) {
	for i := range p {
		p[i] = byte(r.U64())
	}
	return len(p), nil
}
