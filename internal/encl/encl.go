// Package encl computes rigorous interval enclosures of exp, ln, log10 and
// pow with directed-rounding big.Float arithmetic. Every operation rounds the
// lower bound towards -Inf and the upper bound towards +Inf, so the true
// value always lies inside the returned interval. It does not import apd.
package encl

import (
	"math"
	"math/big"
	"sync"
)

// Iv is a closed interval [Lo, Hi] containing the true value.
type Iv struct {
	Lo, Hi *big.Float
}

func fl(prec uint, mode big.RoundingMode) *big.Float {
	return new(big.Float).SetPrec(prec).SetMode(mode)
}

func dn(prec uint) *big.Float { return fl(prec, big.ToNegativeInf) }
func up(prec uint) *big.Float { return fl(prec, big.ToPositiveInf) }

// FromInt encloses an integer.
func FromInt(x *big.Int, w uint) Iv {
	return Iv{dn(w).SetInt(x), up(w).SetInt(x)}
}

// FromRat encloses a rational.
func FromRat(x *big.Rat, w uint) Iv {
	return Iv{dn(w).SetRat(x), up(w).SetRat(x)}
}

// FromFloat is the exact point interval of f (f must have precision <= w).
func FromFloat(f *big.Float, w uint) Iv {
	return Iv{dn(w).Set(f), up(w).Set(f)}
}

func (a Iv) Prec() uint { return a.Lo.Prec() }

func Add(a, b Iv) Iv {
	w := a.Prec()
	return Iv{dn(w).Add(a.Lo, b.Lo), up(w).Add(a.Hi, b.Hi)}
}

func Sub(a, b Iv) Iv {
	w := a.Prec()
	return Iv{dn(w).Sub(a.Lo, b.Hi), up(w).Sub(a.Hi, b.Lo)}
}

func Neg(a Iv) Iv {
	w := a.Prec()
	return Iv{dn(w).Neg(a.Hi), up(w).Neg(a.Lo)}
}

// Mul multiplies two intervals of any sign.
func Mul(a, b Iv) Iv {
	w := a.Prec()
	cands := [4][2]*big.Float{{a.Lo, b.Lo}, {a.Lo, b.Hi}, {a.Hi, b.Lo}, {a.Hi, b.Hi}}
	var lo, hi *big.Float
	for _, c := range cands {
		l := dn(w).Mul(c[0], c[1])
		h := up(w).Mul(c[0], c[1])
		if lo == nil || l.Cmp(lo) < 0 {
			lo = l
		}
		if hi == nil || h.Cmp(hi) > 0 {
			hi = h
		}
	}
	return Iv{lo, hi}
}

// Div divides a by b; b must not contain zero.
func Div(a, b Iv) Iv {
	w := a.Prec()
	if b.Lo.Sign() <= 0 && b.Hi.Sign() >= 0 {
		panic("encl.Div: divisor contains zero")
	}
	cands := [4][2]*big.Float{{a.Lo, b.Lo}, {a.Lo, b.Hi}, {a.Hi, b.Lo}, {a.Hi, b.Hi}}
	var lo, hi *big.Float
	for _, c := range cands {
		l := dn(w).Quo(c[0], c[1])
		h := up(w).Quo(c[0], c[1])
		if lo == nil || l.Cmp(lo) < 0 {
			lo = l
		}
		if hi == nil || h.Cmp(hi) > 0 {
			hi = h
		}
	}
	return Iv{lo, hi}
}

// sqrPos squares an interval with Lo >= 0.
func sqrPos(a Iv) Iv {
	w := a.Prec()
	return Iv{dn(w).Mul(a.Lo, a.Lo), up(w).Mul(a.Hi, a.Hi)}
}

// Mid returns a point inside the interval.
func (a Iv) Mid() *big.Float {
	w := a.Prec()
	m := new(big.Float).SetPrec(w).Add(a.Lo, a.Hi)
	return m.Quo(m, big.NewFloat(2))
}

// Width returns Hi - Lo rounded up.
func (a Iv) Width() *big.Float {
	return up(a.Prec()).Sub(a.Hi, a.Lo)
}

// expPoint encloses exp(x) for the exact point x.
func expPoint(x *big.Float, w uint) Iv {
	if x.Sign() == 0 {
		one := big.NewFloat(1)
		return FromFloat(one, w)
	}
	neg := x.Sign() < 0
	ax := new(big.Float).SetPrec(x.Prec()).Abs(x)
	// halve until |r| < 2^-8
	k := 0
	if e := ax.MantExp(nil); e > -8 {
		k = e + 8
	}
	r := new(big.Float).SetPrec(ax.Prec()).SetMantExp(ax, -k) // exact
	ri := Iv{dn(w).Set(r), up(w).Set(r)}                      // r may have more precision than w: enclose
	// Taylor: sum_{i=0}^{N} r^i / i!
	one := FromFloat(big.NewFloat(1), w)
	sum := one
	term := one
	n := 1
	// stop when term < 2^-(w+8)
	thr := new(big.Float).SetMantExp(big.NewFloat(1), -int(w)-8)
	for {
		term = Mul(term, ri)
		term = Div(term, FromInt(big.NewInt(int64(n)), w))
		sum = Add(sum, term)
		if term.Hi.Cmp(thr) < 0 || n > 4000 {
			break
		}
		n++
	}
	// remainder: sum_{i>n} r^i/i! <= term_n * r/(n+1) * 1/(1 - r/(n+2)) <= 2*term_n*r  (r < 2^-8)
	rem := up(w).Mul(term.Hi, ri.Hi)
	rem.Mul(rem, big.NewFloat(2))
	sum.Hi = up(w).Add(sum.Hi, rem)
	// square back
	for i := 0; i < k; i++ {
		sum = sqrPos(sum)
	}
	if neg {
		sum = Div(one, sum)
	}
	return sum
}

// Exp encloses exp over the interval a (monotone).
func Exp(a Iv) Iv {
	w := a.Prec()
	lo := expPoint(a.Lo, w)
	hi := expPoint(a.Hi, w)
	return Iv{lo.Lo, hi.Hi}
}

var (
	ln10mu    sync.Mutex
	ln10cache = map[uint]Iv{}
)

// Ln10 encloses ln(10) at w bits.
func Ln10(w uint) Iv {
	ln10mu.Lock()
	if v, ok := ln10cache[w]; ok {
		ln10mu.Unlock()
		return v
	}
	ln10mu.Unlock()
	v, _ := LnRat(big.NewRat(10, 1), w)
	ln10mu.Lock()
	ln10cache[w] = v
	ln10mu.Unlock()
	return v
}

// approxLn returns a float64 approximation of ln(x) for a positive rational.
func approxLn(x *big.Rat) float64 {
	f := new(big.Float).SetPrec(80).SetRat(x)
	m := new(big.Float)
	e := f.MantExp(m)
	mf, _ := m.Float64()
	return math.Log(mf) + float64(e)*math.Ln2
}

// LnRat encloses ln(x) for a positive rational x: a candidate y is found by
// Newton's iteration on midpoints (not rigorous) and then certified through
// hi(exp(y-d)) <= x <= lo(exp(y+d)), which by monotonicity of exp makes
// [y-d, y+d] a rigorous enclosure. ok=false if no certificate was found.
func LnRat(x *big.Rat, w uint) (Iv, bool) {
	if x.Sign() <= 0 {
		panic("encl.LnRat: non-positive argument")
	}
	if x.Cmp(big.NewRat(1, 1)) == 0 {
		z := new(big.Float).SetPrec(w)
		return Iv{dn(w).Set(z), up(w).Set(z)}, true
	}
	xi := FromRat(x, w)
	var y *big.Float
	one := big.NewRat(1, 1)
	dm := new(big.Rat).Sub(x, one)
	dmf, _ := dm.Float64()
	if math.Abs(dmf) < 1e-3 {
		// near 1: start from the series x-1 - (x-1)^2/2 evaluated in big.Float
		d := new(big.Float).SetPrec(w).SetRat(dm)
		d2 := new(big.Float).SetPrec(w).Mul(d, d)
		d2.Quo(d2, big.NewFloat(2))
		y = new(big.Float).SetPrec(w).Sub(d, d2)
	} else {
		y = new(big.Float).SetPrec(w).SetFloat64(approxLn(x))
	}
	xm := new(big.Float).SetPrec(w).SetRat(x)
	// Newton: y <- y + 2*(x - e^y)/(x + e^y)  (Halley-like, cubic)
	for it := 0; it < 60; it++ {
		ey := Exp(Iv{dn(w).Set(y), up(w).Set(y)}).Mid()
		num := new(big.Float).SetPrec(w).Sub(xm, ey)
		den := new(big.Float).SetPrec(w).Add(xm, ey)
		corr := new(big.Float).SetPrec(w).Quo(num, den)
		corr.Mul(corr, big.NewFloat(2))
		y.Add(y, corr)
		if corr.Sign() == 0 {
			break
		}
		// converged when |corr| < |y| * 2^-(w-8)
		ce := corr.MantExp(nil)
		ye := y.MantExp(nil)
		if ce < ye-int(w)+8 {
			break
		}
	}
	// certify
	ye := y.MantExp(nil)
	if y.Sign() == 0 {
		ye = -int(w)
	}
	for shift := int(w) - 12; shift > int(w)/2; shift -= 8 {
		d := new(big.Float).SetPrec(w).SetMantExp(big.NewFloat(1), ye-shift)
		lo := dn(w).Sub(y, d)
		hi := up(w).Add(y, d)
		eLo := expPoint(lo, w)
		eHi := expPoint(hi, w)
		if eLo.Hi.Cmp(xi.Lo) <= 0 && eHi.Lo.Cmp(xi.Hi) >= 0 {
			return Iv{lo, hi}, true
		}
	}
	return Iv{}, false
}

// RelWidthExp2 returns an upper estimate of log2(width/|mid|) (very negative
// means tight); 0 if the interval contains zero.
func (a Iv) RelWidthExp2() int {
	if a.Lo.Sign() <= 0 && a.Hi.Sign() >= 0 {
		return 0
	}
	wd := a.Width()
	if wd.Sign() == 0 {
		return -1 << 30
	}
	we := wd.MantExp(nil)
	me := a.Hi.MantExp(nil)
	if a.Lo.Sign() > 0 {
		me = a.Lo.MantExp(nil)
	}
	return we - me + 1
}
